#!/bin/bash
# seedcheck.sh <seed-dir-name> <property> <worktree> <pkg-path> <demo-test-regex> [tier] [extra props...]
# confirms a seeded change (demo fails with it, passes without; touched package tests pass), stores it under
# /verif/seeded/<name>/ and runs the property's check against /repo with the change applied (then undoes it).
set -u
NAME=$1; PROP=$2; WT=$3; PKG=$4; RE=$5; TIER=${6:-quick}
. /verif/env.sh
cd $WT || exit 2
PATCH=$WT/seeded.patch.diff
[ -s $PATCH ] || { echo "no patch"; exit 2; }
demo=$(git -C $WT status --porcelain | grep '^??' | grep '_test.go' | awk '{print $2}' | head -1)
echo "demo file: $demo"
run_demo() { (cd $WT && $VGO test -vet=off -count=1 -run "$RE" $PKG 2>&1 | tail -15); }
echo "== demo WITH change (expect FAIL)"; run_demo > /tmp/sc.with.txt; tail -3 /tmp/sc.with.txt
git -C $WT apply -R $PATCH || { echo "cannot reverse patch"; exit 2; }
echo "== demo WITHOUT change (expect ok)"; run_demo > /tmp/sc.without.txt; tail -3 /tmp/sc.without.txt
git -C $WT apply $PATCH
mv $WT/$demo /tmp/sc.demo.go
echo "== package tests with change, demo removed (expect ok)"
for p in $(grep '^+++ b/' $PATCH | sed 's|+++ b/||' | xargs -n1 dirname | sort -u); do (cd $WT && $VGO test -vet=off -count=1 ./$p 2>&1 | tail -2); done
mv /tmp/sc.demo.go $WT/$demo
mkdir -p /verif/seeded/$NAME
cp $PATCH /verif/seeded/$NAME/patch.diff; cp $WT/$demo /verif/seeded/$NAME/$(basename $demo)
echo "== check against /repo with change applied"
git -C /repo apply --check $PATCH || { echo "PATCH DOES NOT APPLY TO /repo"; exit 2; }
git -C /repo apply $PATCH
cp /verif/evidence/$PROP.json /tmp/sc.evidence.json 2>/dev/null   # evidence must describe the unchanged tree: put it back afterwards
(cd /verif && ./run $PROP $TIER > /tmp/sc.check.txt 2>&1; echo "check exit=$?" >> /tmp/sc.check.txt)
git -C /repo checkout -- .
cp /tmp/sc.evidence.json /verif/evidence/$PROP.json 2>/dev/null
grep -E "VIOLATION|exit=" /tmp/sc.check.txt | cut -c1-300 | head -8
