#!/bin/bash
# seedsweep.sh [name-prefix...] : regression over the stored seeded changes. For each seeded/<name>/ it applies patch.diff to
# the repository snapshot of a background run ($VP_RUN_REPO - never /repo itself), runs the quick check of the seed's
# property (meta.json "property"; a seed recorded as caught by another check names it in "detected_by"), and prints one
# line with the exit code (1 = caught). Used with: vp run --with-repo -- ./seedsweep.sh
R=${VP_RUN_REPO:?run this under vp run --with-repo}
[ "$R" = /repo ] && { echo "refusing to patch /repo"; exit 2; }
for d in seeded/*/; do
  n=$(basename $d)
  if [ $# -gt 0 ]; then m=0; for p in "$@"; do case $n in $p*) m=1;; esac; done; [ $m = 1 ] || continue; fi
  prop=$(jq -r .property $d/meta.json)
  git -C $R checkout -q -- . ; git -C $R apply $PWD/$d/patch.diff 2>/dev/null || { echo "$n $prop PATCH-DOES-NOT-APPLY"; continue; }
  t0=$(date +%s)
  ./run $prop quick > seedsweep.$n.log 2>&1; rc=$?
  echo "$n $prop exit=$rc $(( $(date +%s)-t0 ))s $(grep -m1 -o 'key=[^ ]*' seedsweep.$n.log)"
  git -C $R checkout -q -- .
done
