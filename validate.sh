#!/bin/bash
# validates MANIFEST.json and every evidence file against the schemas
python3-vt - <<'PY'
import json,jsonschema,glob,sys
ok=True
m=json.load(open('/verif/MANIFEST.json'))
jsonschema.validate(m,json.load(open('/root/.vp/MANIFEST.schema.json')))
es=json.load(open('/root/.vp/EVIDENCE.schema.json'))
for c in m['checks']:
    f=c['evidence_file']
    try:
        jsonschema.validate(json.load(open(f)),es)
    except Exception as e:
        ok=False; print('BAD',f,str(e)[:200])
print('manifest ok; evidence', 'ok' if ok else 'BAD', len(m['checks']),'checks')
PY
