#!/bin/bash
# dbg.sh <prop> <key-prefix>: per-layer round trip of the first replay whose key starts with the argument
python3 - "$1" "$2" "${3:-2}" <<'PY'
import json,sys,subprocess,glob
for f in sorted(glob.glob('/verif/replays/%s/*.json'%sys.argv[1])):
    d=json.load(open(f))
    if d['key'].startswith(sys.argv[2]):
        det=d['detail']
        print(d['key'],'|',d['desc'][:300]); print('mutation',det.get('mutation'),'decoded_as',det.get('decoded_as'),'opts',det.get('options'))
        out=subprocess.run(['/verif/bin/vdebug','rt1',det.get('decoded_as','Ethernet'),det['source_packet_hex'].rstrip('.')],capture_output=True,text=True).stdout
        blocks=out.split('===== ')
        for b in blocks:
            if b.startswith(det['layer']+'\n'):
                n=globals().get('n',0)+1; globals()['n']=n
                if n<=int(sys.argv[3] if len(sys.argv)>3 else 2): print('\n'.join(l[:420] for l in b.split('\n')))
        break
PY
