# sourced by every script in /verif: pinned toolchain + offline module settings
export GOFLAGS=-mod=mod GOPROXY=off GOSUMDB=off GOTOOLCHAIN=local CGO_ENABLED=1
VGO=/root/go/pkg/mod/golang.org/toolchain@v0.0.1-go1.25.0.linux-amd64/bin/go
if [ ! -x "$VGO" ]; then
  if command -v go1.26.8 >/dev/null 2>&1; then VGO=$(command -v go1.26.8); else VGO=$(command -v go); export GOTOOLCHAIN=auto; fi
fi
export VGO
export VERIF_ROOT=${VERIF_ROOT:-/verif}
