// Package sig computes canonical signatures of decoded values: two packets (layers, flows, ...) are "identical" for
// the differential oracles iff their signatures are equal. The walk reads unexported fields through reflect (never
// calling Interface() on them), treats nil and empty slices as equal, compares byte slices by content only (never by
// address or capacity), sorts maps, and skips funcs, channels and the goroutine stack text kept in DecodeFailure.
package sig

import (
	"encoding/hex"
	"fmt"
	"reflect"
	"sort"
	"strings"

	"github.com/gopacket/gopacket"
)

type walker struct {
	sb       strings.Builder
	seen     map[uintptr]bool
	lines    bool
	path     []string
	out      []string
	skipBase bool
	exported bool // skip unexported struct fields (caches and scratch space that no accessor exposes)
}

func (w *walker) emit(val string) {
	if w.lines {
		w.out = append(w.out, strings.Join(w.path, "")+" = "+val)
	} else {
		w.sb.WriteString(val)
		w.sb.WriteByte(';')
	}
}

func (w *walker) push(s string) { w.path = append(w.path, s) }
func (w *walker) pop()          { w.path = w.path[:len(w.path)-1] }

var timeType = reflect.TypeOf(gopacket.CaptureInfo{}.Timestamp)

func (w *walker) walk(v reflect.Value, depth int) {
	if depth > 60 {
		w.emit("<too deep>")
		return
	}
	if !v.IsValid() {
		w.emit("<invalid>")
		return
	}
	switch v.Kind() {
	case reflect.Bool:
		w.emit(fmt.Sprint(v.Bool()))
	case reflect.Int, reflect.Int8, reflect.Int16, reflect.Int32, reflect.Int64:
		w.emit(fmt.Sprint(v.Int()))
	case reflect.Uint, reflect.Uint8, reflect.Uint16, reflect.Uint32, reflect.Uint64, reflect.Uintptr:
		w.emit(fmt.Sprint(v.Uint()))
	case reflect.Float32, reflect.Float64:
		w.emit(fmt.Sprint(v.Float()))
	case reflect.Complex64, reflect.Complex128:
		w.emit(fmt.Sprint(v.Complex()))
	case reflect.String:
		w.emit(fmt.Sprintf("%q", v.String()))
	case reflect.Slice, reflect.Array:
		if v.Kind() == reflect.Slice && v.Type().Elem().Kind() == reflect.Uint8 {
			n := v.Len()
			b := make([]byte, n)
			for i := 0; i < n; i++ {
				b[i] = byte(v.Index(i).Uint())
			}
			w.emit("x" + hex.EncodeToString(b))
			return
		}
		if v.Kind() == reflect.Array && v.Type().Elem().Kind() == reflect.Uint8 {
			n := v.Len()
			b := make([]byte, n)
			for i := 0; i < n; i++ {
				b[i] = byte(v.Index(i).Uint())
			}
			w.emit("a" + hex.EncodeToString(b))
			return
		}
		w.push(".len")
		w.emit(fmt.Sprint(v.Len()))
		w.pop()
		for i := 0; i < v.Len(); i++ {
			w.push(fmt.Sprintf("[%d]", i))
			w.walk(v.Index(i), depth+1)
			w.pop()
		}
	case reflect.Map:
		type kv struct {
			k string
			v reflect.Value
		}
		var kvs []kv
		it := v.MapRange()
		for it.Next() {
			kw := &walker{seen: map[uintptr]bool{}}
			kw.walk(it.Key(), depth+1)
			kvs = append(kvs, kv{kw.sb.String(), it.Value()})
		}
		sort.Slice(kvs, func(i, j int) bool { return kvs[i].k < kvs[j].k })
		w.push(".len")
		w.emit(fmt.Sprint(len(kvs)))
		w.pop()
		for _, e := range kvs {
			w.push("{" + e.k + "}")
			w.walk(e.v, depth+1)
			w.pop()
		}
	case reflect.Ptr:
		if v.IsNil() {
			w.emit("nil")
			return
		}
		p := v.Pointer()
		if w.seen[p] {
			w.emit("<cycle>")
			return
		}
		w.seen[p] = true
		w.walk(v.Elem(), depth+1)
		delete(w.seen, p)
	case reflect.Interface:
		if v.IsNil() {
			w.emit("nil")
			return
		}
		e := v.Elem()
		w.push("(" + e.Type().String() + ")")
		w.walk(e, depth+1)
		w.pop()
	case reflect.Struct:
		t := v.Type()
		if t == timeType {
			// wall clock reading only: monotonic part and location pointer are not part of the value
			if v.CanInterface() {
				w.emit(fmt.Sprint(v.MethodByName("UnixNano").Call(nil)[0].Int()))
			} else {
				w.push(".wall")
				w.walk(v.Field(0), depth+1)
				w.pop()
				w.push(".ext")
				w.walk(v.Field(1), depth+1)
				w.pop()
			}
			return
		}
		for i := 0; i < v.NumField(); i++ {
			f := t.Field(i)
			if t.PkgPath() == "github.com/gopacket/gopacket" && t.Name() == "DecodeFailure" && f.Name == "stack" {
				continue
			}
			if w.skipBase && f.Name == "BaseLayer" && f.Anonymous {
				continue
			}
			if w.exported && f.PkgPath != "" {
				continue
			}
			w.push("." + f.Name)
			w.walk(v.Field(i), depth+1)
			w.pop()
		}
	case reflect.Func, reflect.Chan, reflect.UnsafePointer:
		// skipped
	default:
		w.emit("<" + v.Kind().String() + ">")
	}
}

// Of returns the canonical signature string of v.
func Of(v any) string {
	w := &walker{seen: map[uintptr]bool{}}
	w.walk(reflect.ValueOf(v), 0)
	return w.sb.String()
}

// NoBase is Of without any embedded BaseLayer (contents/payload) at any depth.
func NoBase(v any) string {
	w := &walker{seen: map[uintptr]bool{}, skipBase: true}
	w.walk(reflect.ValueOf(v), 0)
	return w.sb.String()
}

// Lines returns one "path = value" line per leaf, for locating the first difference.
func Lines(v any, skipBase bool) []string {
	w := &walker{seen: map[uintptr]bool{}, lines: true, skipBase: skipBase}
	w.walk(reflect.ValueOf(v), 0)
	return w.out
}

// FirstDiff returns the path of the first differing leaf of two values ("" when equal).
func FirstDiff(a, b any, skipBase bool) string {
	la, lb := Lines(a, skipBase), Lines(b, skipBase)
	for i := 0; i < len(la) && i < len(lb); i++ {
		if la[i] != lb[i] {
			pa := la[i]
			if j := strings.Index(pa, " = "); j >= 0 {
				pa = pa[:j]
			}
			return fmt.Sprintf("%s (%s | %s)", pa, trunc(la[i]), trunc(lb[i]))
		}
	}
	if len(la) != len(lb) {
		return fmt.Sprintf("<leaf count %d vs %d>", len(la), len(lb))
	}
	return ""
}

// DiffPath is FirstDiff reduced to the bare path (used as part of finding keys), with indices stripped.
func DiffPath(a, b any, skipBase bool) string {
	la, lb := Lines(a, skipBase), Lines(b, skipBase)
	for i := 0; i < len(la) && i < len(lb); i++ {
		if la[i] != lb[i] {
			pa := la[i]
			if j := strings.Index(pa, " = "); j >= 0 {
				pa = pa[:j]
			}
			return stripIdx(pa)
		}
	}
	if len(la) != len(lb) {
		return "<shape>"
	}
	return ""
}

func stripIdx(s string) string {
	var sb strings.Builder
	depth := 0
	for _, r := range s {
		switch {
		case r == '[' || r == '{':
			depth++
			if depth == 1 {
				sb.WriteString("[]")
			}
		case r == ']' || r == '}':
			depth--
		case depth == 0:
			sb.WriteRune(r)
		}
	}
	return sb.String()
}

func trunc(s string) string {
	if len(s) > 160 {
		return s[:160] + "..."
	}
	return s
}

// PacketSig is the comparable form of a decoded packet.
type PacketSig struct {
	Types                          []string
	Layers                         []string // signature of each layer (fields, contents, payload)
	Link, Net, Transport, App, Err int      // indices into Layers (-1 = nil)
	Truncated                      bool
	Meta                           string
	Data                           string
	String                         string
}

// Packet computes the signature of p. It calls p.Layers() (forcing a lazy packet to decode fully).
func Packet(p gopacket.Packet, withString bool) PacketSig {
	ls := p.Layers()
	s := PacketSig{Link: -1, Net: -1, Transport: -1, App: -1, Err: -1}
	idx := func(l gopacket.Layer) int {
		if l == nil || reflect.ValueOf(l).Kind() == reflect.Ptr && reflect.ValueOf(l).IsNil() {
			return -1
		}
		for i, x := range ls {
			if x == l {
				return i
			}
		}
		return -2 // a layer that is not in Layers()
	}
	for _, l := range ls {
		s.Types = append(s.Types, l.LayerType().String())
		s.Layers = append(s.Layers, Of(l)+"|c="+hex.EncodeToString(l.LayerContents())+"|p="+hex.EncodeToString(l.LayerPayload()))
	}
	if l := p.LinkLayer(); l != nil {
		s.Link = idx(l)
	}
	if l := p.NetworkLayer(); l != nil {
		s.Net = idx(l)
	}
	if l := p.TransportLayer(); l != nil {
		s.Transport = idx(l)
	}
	if l := p.ApplicationLayer(); l != nil {
		s.App = idx(l)
	}
	if l := p.ErrorLayer(); l != nil {
		s.Err = idx(l)
	}
	if m := p.Metadata(); m != nil {
		s.Truncated = m.Truncated
		s.Meta = Of(*m)
	}
	s.Data = hex.EncodeToString(p.Data())
	if withString {
		s.String = p.String()
	}
	return s
}

// Equal compares two packet signatures and names the first differing part.
func (a PacketSig) Equal(b PacketSig) (bool, string) {
	if strings.Join(a.Types, ",") != strings.Join(b.Types, ",") {
		return false, fmt.Sprintf("layer types %v vs %v", a.Types, b.Types)
	}
	for i := range a.Layers {
		if a.Layers[i] != b.Layers[i] {
			return false, fmt.Sprintf("layers[%d] (%s)", i, a.Types[i])
		}
	}
	switch {
	case a.Link != b.Link:
		return false, "LinkLayer"
	case a.Net != b.Net:
		return false, "NetworkLayer"
	case a.Transport != b.Transport:
		return false, "TransportLayer"
	case a.App != b.App:
		return false, "ApplicationLayer"
	case a.Err != b.Err:
		return false, "ErrorLayer"
	case a.Truncated != b.Truncated:
		return false, "Metadata.Truncated"
	case a.Meta != b.Meta:
		return false, "Metadata"
	case a.Data != b.Data:
		return false, "Data"
	case a.String != b.String:
		return false, "String()"
	}
	return true, ""
}

// DiffLayer names the layer type at the first position where two packet signatures differ (preferring a real layer
// type over DecodeFailure); "" when the layers agree.
func DiffLayer(a, b PacketSig) string {
	n := len(a.Types)
	if len(b.Types) > n {
		n = len(b.Types)
	}
	for i := 0; i < n; i++ {
		var ta, tb, la, lb string
		if i < len(a.Types) {
			ta, la = a.Types[i], a.Layers[i]
		}
		if i < len(b.Types) {
			tb, lb = b.Types[i], b.Layers[i]
		}
		if ta != tb || la != lb {
			for _, t := range []string{ta, tb} {
				if t != "" && t != "DecodeFailure" {
					return strings.ReplaceAll(t, " ", "_")
				}
			}
			// both sides end in a failure here: it belongs to the decoder that failed, i.e. the layer in front of it
			if i > 0 && i-1 < len(a.Types) {
				return strings.ReplaceAll(a.Types[i-1], " ", "_")
			}
			return "DecodeFailure"
		}
	}
	return ""
}

// DiffLayerFirst is DiffLayer with a failure of the very first decoder attributed to the first layer type.
func DiffLayerFirst(a, b PacketSig, first string) string {
	d := DiffLayer(a, b)
	if d == "DecodeFailure" {
		return strings.ReplaceAll(first, " ", "_")
	}
	return d
}

// Exported is Of restricted to exported fields (at every depth).
func Exported(v any) string {
	w := &walker{seen: map[uintptr]bool{}, exported: true}
	w.walk(reflect.ValueOf(v), 0)
	return w.sb.String()
}

// ExportedDiff returns (bare path, description) of the first differing exported leaf of two values.
func ExportedDiff(a, b any) (string, string) {
	wa := &walker{seen: map[uintptr]bool{}, lines: true, exported: true}
	wa.walk(reflect.ValueOf(a), 0)
	wb := &walker{seen: map[uintptr]bool{}, lines: true, exported: true}
	wb.walk(reflect.ValueOf(b), 0)
	la, lb := wa.out, wb.out
	for i := 0; i < len(la) && i < len(lb); i++ {
		if la[i] != lb[i] {
			pa := la[i]
			if j := strings.Index(pa, " = "); j >= 0 {
				pa = pa[:j]
			}
			return stripIdx(pa), fmt.Sprintf("%s (%s | %s)", pa, trunc(la[i]), trunc(lb[i]))
		}
	}
	if len(la) != len(lb) {
		return "<shape>", fmt.Sprintf("leaf count %d vs %d", len(la), len(lb))
	}
	return "", ""
}

// ExportedNoBase is the signature of the exported fields without any embedded BaseLayer: what a serializer reads.
func ExportedNoBase(v any) string {
	w := &walker{seen: map[uintptr]bool{}, exported: true, skipBase: true}
	w.walk(reflect.ValueOf(v), 0)
	return w.sb.String()
}

// ExportedNoBaseDiff returns (bare path, description) of the first differing leaf under ExportedNoBase.
func ExportedNoBaseDiff(a, b any) (string, string) {
	wa := &walker{seen: map[uintptr]bool{}, lines: true, exported: true, skipBase: true}
	wa.walk(reflect.ValueOf(a), 0)
	wb := &walker{seen: map[uintptr]bool{}, lines: true, exported: true, skipBase: true}
	wb.walk(reflect.ValueOf(b), 0)
	la, lb := wa.out, wb.out
	for i := 0; i < len(la) && i < len(lb); i++ {
		if la[i] != lb[i] {
			pa := la[i]
			if j := strings.Index(pa, " = "); j >= 0 {
				pa = pa[:j]
			}
			return stripIdx(pa), fmt.Sprintf("%s (%s | %s)", pa, trunc(la[i]), trunc(lb[i]))
		}
	}
	if len(la) != len(lb) {
		return "<shape>", fmt.Sprintf("leaf count %d vs %d", len(la), len(lb))
	}
	return "", ""
}

// ExportedNoBaseLines returns the "path = value" leaf lines of ExportedNoBase.
func ExportedNoBaseLines(a any) []string {
	wa := &walker{seen: map[uintptr]bool{}, lines: true, exported: true, skipBase: true}
	wa.walk(reflect.ValueOf(a), 0)
	return wa.out
}

// StripIdx removes list indices from a leaf path.
func StripIdx(p string) string { return stripIdx(p) }
