// Package capgen generates capture files through gopacket's own writers and records, per written packet, what was
// written and the file offset after it was flushed. It is shared by the pcapgo checks (vchild) and the libpcap
// cross-reader (vpcap).
package capgen

import (
	"bytes"
	"fmt"
	"reflect"
	"time"

	"github.com/gopacket/gopacket"
	"github.com/gopacket/gopacket/layers"
	"github.com/gopacket/gopacket/pcapgo"

	"verif/harness/internal/vlib"
)

type Kind int

const (
	ClassicMicro Kind = iota
	ClassicNano
	Ng
)

func (k Kind) String() string { return []string{"pcap-us", "pcap-ns", "pcapng"}[k] }

// Pkt is one written packet.
type Pkt struct {
	Data []byte
	CI   gopacket.CaptureInfo
	Opts pcapgo.NgPacketOptions
	End  int // file length after this packet was written and flushed
}

// File is a generated capture file plus everything that went into it.
type File struct {
	Kind     Kind
	Bytes    []byte
	HdrEnd   int // offset after file header / section + first interface
	Pkts     []Pkt
	Snaplen  uint32
	LinkType layers.LinkType
	// pcapng
	Section  pcapgo.NgSectionInfo
	Ifaces   []pcapgo.NgInterface
	IfaceAt  []int // number of packets written before interface i was added
	Mixed    bool  // interfaces have different link types (reader needs WantMixedLinkType)
	HasStats bool
	Stats    map[int]pcapgo.NgInterfaceStatistics
	WriteErr string
	Features map[string]bool
}

var linkTypes = []layers.LinkType{layers.LinkTypeEthernet, layers.LinkTypeRaw, layers.LinkTypeLinuxSLL, layers.LinkTypeNull, layers.LinkTypeIEEE802_11}

func str(r *vlib.Rand, maxLen int) string {
	n := r.Intn(maxLen + 1)
	b := make([]byte, n)
	for i := range b {
		b[i] = byte('a' + r.Intn(26))
	}
	return string(b)
}

func pktData(r *vlib.Rand, small bool) []byte {
	n := r.Intn(120)
	switch r.Intn(10) {
	case 0:
		n = 0
	case 1:
		if !small {
			n = r.Range(1400, 1600)
		}
	case 2:
		n = r.Range(1, 9)
	}
	return r.Bytes(n)
}

// Classic writes a classic pcap file (micro- or nanosecond).
func Classic(r *vlib.Rand, nano bool, small bool) *File {
	f := &File{Kind: ClassicMicro, Features: map[string]bool{}}
	var buf bytes.Buffer
	w := pcapgo.NewWriter(&buf)
	if nano {
		f.Kind = ClassicNano
		w = pcapgo.NewWriterNanos(&buf)
	}
	n := r.Intn(10)
	var datas [][]byte
	maxLen := 0
	for i := 0; i < n; i++ {
		d := pktData(r, small)
		datas = append(datas, d)
		if len(d) > maxLen {
			maxLen = len(d)
		}
	}
	f.LinkType = linkTypes[r.Intn(len(linkTypes))]
	switch r.Intn(6) {
	case 0:
		f.Snaplen = uint32(maxLen) // exactly the largest capture length
	case 1:
		f.Snaplen = 0 // "no limit" in libpcap's reading
		f.Features["snaplen0"] = true
	case 2:
		f.Snaplen = 262144
	default:
		f.Snaplen = uint32(maxLen + r.Intn(2000))
	}
	if err := w.WriteFileHeader(f.Snaplen, f.LinkType); err != nil {
		f.WriteErr = err.Error()
	}
	f.HdrEnd = buf.Len()
	sec := int64(r.Intn(2000000000))
	for _, d := range datas {
		sec += int64(r.Intn(100))
		if r.Chance(1, 8) {
			sec = int64(r.U32()) // anywhere in the representable range, also going backwards
		}
		ns := r.Intn(1000000000)
		switch r.Intn(6) {
		case 0:
			ns = 0
		case 1:
			ns = 999999999
		case 2:
			ns = r.Intn(1000) // below one microsecond
		}
		if sec > 1<<32-1 {
			sec = 1<<32 - 1 // the classic format has 32 bits for the seconds
		}
		ts := time.Unix(sec, int64(ns)).UTC()
		if r.Chance(1, 10) {
			es, en := edgeTime(r, false) // the first seconds of the epoch, the 2^31 and 2^32 second marks
			ts = time.Unix(es, int64(en)).UTC()
		}
		ci := gopacket.CaptureInfo{Timestamp: ts, CaptureLength: len(d), Length: len(d)}
		if r.Chance(1, 3) {
			ci.Length += r.Intn(3000) // snapped packet
			f.Features["snapped"] = true
		}
		if err := w.WritePacket(ci, d); err != nil && f.WriteErr == "" {
			f.WriteErr = err.Error()
		}
		f.Pkts = append(f.Pkts, Pkt{Data: d, CI: ci, End: buf.Len()})
		if len(d)%4 != 0 {
			f.Features["unaligned-length"] = true
		}
	}
	f.Bytes = buf.Bytes()
	return f
}

func pktOpts(r *vlib.Rand, f *File) pcapgo.NgPacketOptions {
	var o pcapgo.NgPacketOptions
	if r.Chance(2, 3) {
		return o
	}
	f.Features["packet-options"] = true
	for k := r.Intn(3); k > 0; k-- {
		c := str(r, 9)
		if r.Chance(1, 5) {
			c = ""
			f.Features["empty-comment"] = true
		}
		o.Comments = append(o.Comments, c)
	}
	if r.Bool() {
		fl := &pcapgo.NgEpbFlags{
			Direction: []pcapgo.NgEpbFlag{pcapgo.NgEpbFlagDirectionUnknown, pcapgo.NgEpbFlagDirectionInbound, pcapgo.NgEpbFlagDirectionOutbound}[r.Intn(3)],
			Reception: []pcapgo.NgEpbFlag{pcapgo.NgEpbFlagReceptionTypeNotSpecified, pcapgo.NgEpbFlagReceptionTypeUnicast, pcapgo.NgEpbFlagReceptionTypeMulticast, pcapgo.NgEpbFlagReceptionTypeBroadcast, pcapgo.NgEpbFlagReceptionTypePromiscuous}[r.Intn(5)],
			FCSLen:    pcapgo.NewNgEpbFlagFCSLength(uint8(r.Intn(8))),
		}
		if r.Bool() {
			fl.LinkLayerErr = pcapgo.NgEpbFlagLinkLayerDependentErrorCRC
		}
		o.Flags = fl
	}
	for k := r.Intn(3); k > 0; k-- {
		o.Hashes = append(o.Hashes, pcapgo.NgEpbHash{Algorithm: pcapgo.NgEpbHashAlgorithm(r.Intn(6)), Hash: r.Bytes(r.Intn(21))})
	}
	if r.Bool() {
		v := r.U64()
		o.DropCount = &v
	}
	if r.Bool() {
		v := r.U64()
		o.PacketID = &v
	}
	if r.Bool() {
		v := r.U32()
		o.Queue = &v
	}
	for k := r.Intn(3); k > 0; k-- {
		o.Verdicts = append(o.Verdicts, pcapgo.NgEpbVerdict{Type: pcapgo.NgEpbVerdictType(r.Intn(3)), Data: r.Bytes(r.Intn(10))})
	}
	return o
}

func ngIface(r *vlib.Rand, lt layers.LinkType, f *File) pcapgo.NgInterface {
	i := pcapgo.NgInterface{LinkType: lt, TimestampResolution: 9}
	if r.Bool() {
		i.Name = str(r, 7)
	}
	if r.Chance(1, 3) {
		i.Comment = str(r, 11)
	}
	if r.Chance(1, 3) {
		i.Description = str(r, 13)
	}
	if r.Chance(1, 3) {
		i.Filter = str(r, 10)
	}
	if r.Chance(1, 3) {
		i.OS = str(r, 6)
	}
	if r.Chance(1, 5) {
		i.TimestampOffset = uint64(r.Intn(100000))
		if i.TimestampOffset != 0 {
			f.Features["tsoffset"] = true
		}
	}
	if r.Chance(1, 2) {
		i.SnapLength = uint32(2000 + r.Intn(70000))
	}
	return i
}

// NgFile writes a pcapng file. libpcapSafe restricts it to what libpcap accepts (one link type, one snap length).
func NgFile(r *vlib.Rand, small bool, libpcapSafe bool) *File {
	f := &File{Kind: Ng, Features: map[string]bool{}, Stats: map[int]pcapgo.NgInterfaceStatistics{}}
	var buf bytes.Buffer
	f.LinkType = linkTypes[r.Intn(len(linkTypes))]
	first := ngIface(r, f.LinkType, f)
	if libpcapSafe {
		first.TimestampOffset = 0
		delete(f.Features, "tsoffset")
	}
	f.Section = pcapgo.NgSectionInfo{Hardware: str(r, 6), OS: str(r, 9), Application: str(r, 5), Comment: str(r, 12)}
	w, err := pcapgo.NewNgWriterInterface(&buf, first, pcapgo.NgWriterOptions{SectionInfo: f.Section})
	if err != nil {
		f.WriteErr = err.Error()
		return f
	}
	w.Flush()
	f.Ifaces = append(f.Ifaces, first)
	f.IfaceAt = append(f.IfaceAt, 0)
	f.HdrEnd = buf.Len()
	f.Mixed = !libpcapSafe && r.Chance(1, 4)
	n := r.Intn(10)
	ns := int64(r.Intn(2000000000))*1e9 + int64(r.Intn(1e9))
	hugeAt := -1
	if n > 0 && r.Chance(1, 25) {
		hugeAt = r.Intn(n)
	}
	for i := 0; i < n; i++ {
		if !libpcapSafe && len(f.Ifaces) < 4 && r.Chance(1, 5) {
			lt := f.LinkType
			if f.Mixed {
				lt = linkTypes[r.Intn(len(linkTypes))]
			}
			in := ngIface(r, lt, f)
			if libpcapSafe {
				in.TimestampOffset, in.SnapLength = 0, first.SnapLength
			}
			if _, err := w.AddInterface(in); err != nil && f.WriteErr == "" {
				f.WriteErr = err.Error()
			}
			f.Ifaces = append(f.Ifaces, in)
			f.IfaceAt = append(f.IfaceAt, len(f.Pkts))
			f.Features["several-interfaces"] = true
		}
		if r.Chance(1, 6) {
			id := r.Intn(len(f.Ifaces))
			st := pcapgo.NgInterfaceStatistics{LastUpdate: time.Unix(0, ns).UTC(), PacketsReceived: uint64(r.Intn(1000)), PacketsDropped: uint64(r.Intn(10))}
			if r.Bool() {
				st.StartTime = time.Unix(0, ns-int64(r.Intn(1e9))).UTC()
				st.EndTime = time.Unix(0, ns).UTC()
			}
			if err := w.WriteInterfaceStats(id, st); err != nil && f.WriteErr == "" {
				f.WriteErr = err.Error()
			}
			f.Stats[id] = st
			f.HasStats = true
			f.Features["interface-statistics"] = true
		}
		if !libpcapSafe && r.Chance(1, 12) {
			if err := w.WriteDecryptionSecretsBlock(0x544c534b, r.Bytes(r.Intn(40))); err != nil && f.WriteErr == "" {
				f.WriteErr = err.Error()
			}
			f.Features["decryption-secrets-block"] = true
		}
		d := pktData(r, small)
		hugeIface := -1
		if !small && !libpcapSafe && i == hugeAt {
			// one packet above the reader's 1 MiB chunk size (legal where the interface has no snap length): sizes at and
			// around whole chunks
			for k, in := range f.Ifaces {
				if in.SnapLength == 0 {
					hugeIface = k
				}
			}
			if hugeIface >= 0 {
				d = r.Bytes([]int{1<<20 - 1, 1 << 20, 1<<20 + 1, 1<<20 + 524288, 2<<20 + 7}[r.Intn(5)])
				f.Features["packet-above-1MiB"] = true
			}
		}
		ns += int64(r.Intn(1e9))
		if r.Chance(1, 10) {
			ns = int64(r.U64() >> 1) // anywhere in 1970..2262
		}
		ts := time.Unix(0, ns).UTC()
		if r.Chance(1, 10) {
			es, en := edgeTime(r, true)
			ts = time.Unix(es, int64(en)).UTC()
		}
		ci := gopacket.CaptureInfo{Timestamp: ts, CaptureLength: len(d), Length: len(d), InterfaceIndex: r.Intn(len(f.Ifaces))}
		if r.Chance(1, 3) {
			ci.Length += r.Intn(3000)
			f.Features["snapped"] = true
		}
		o := pktOpts(r, f)
		if libpcapSafe {
			ci.InterfaceIndex = r.Intn(len(f.Ifaces))
		}
		if hugeIface >= 0 {
			ci.InterfaceIndex = hugeIface
			ci.Length = len(d)
		}
		var werr error
		if reflect.DeepEqual(o, pcapgo.NgPacketOptions{}) && i%2 == 0 {
			werr = w.WritePacket(ci, d) // the plain call, for packets without options
		} else {
			werr = w.WritePacketWithOptions(ci, d, o)
		}
		if err := werr; err != nil && f.WriteErr == "" {
			f.WriteErr = fmt.Sprintf("packet %d: %v", i, err)
		}
		if err := w.Flush(); err != nil && f.WriteErr == "" {
			f.WriteErr = err.Error()
		}
		f.Pkts = append(f.Pkts, Pkt{Data: d, CI: ci, Opts: o, End: buf.Len()})
		if len(d)%4 != 0 {
			f.Features["unaligned-length"] = true
		}
	}
	f.Bytes = buf.Bytes()
	return f
}

// Gen picks a kind.
func Gen(r *vlib.Rand, small bool) *File {
	switch r.Intn(4) {
	case 0:
		return Classic(r, false, small)
	case 1:
		return Classic(r, true, small)
	}
	return NgFile(r, small, false)
}

// edgeTime picks a timestamp at the edges of the representable range: within the first two seconds after the epoch and
// around the 2^31 and 2^32 second marks, with sub-second parts at both ends of the second.
func edgeTime(r *vlib.Rand, wide bool) (sec int64, ns int) {
	secs := []int64{0, 0, 0, 1, 2, 1<<31 - 1, 1 << 31, 1<<32 - 1}
	if wide {
		secs = append(secs, 1<<32, 1<<32+1)
	}
	nss := []int{0, 1, 999, 1000, 1001, 999999, 1000000, 500000000, 999999000, 999999999}
	return secs[r.Intn(len(secs))], nss[r.Intn(len(nss))]
}
