// Package pk builds wire-format packets byte by byte and computes RFC 1071 checksums. It is the harness's
// independent reference: it imports nothing from gopacket, so oracles built on it do not share code with the
// subject under test.
package pk

import "encoding/binary"

// Sum1071 is the reference one's-complement sum: 64-bit accumulation of big-endian 16-bit words (odd tail padded
// with a zero byte), end-around carry fold to 16 bits. It returns the folded sum (NOT complemented).
func Sum1071(data []byte, init uint64) uint16 {
	s := init
	n := len(data)
	for i := 0; i+1 < n; i += 2 {
		s += uint64(data[i])<<8 | uint64(data[i+1])
	}
	if n&1 == 1 {
		s += uint64(data[n-1]) << 8
	}
	for s>>16 != 0 {
		s = (s & 0xffff) + (s >> 16)
	}
	return uint16(s)
}

// Cksum1071 is the Internet checksum: complement of Sum1071.
func Cksum1071(data []byte, init uint64) uint16 { return ^Sum1071(data, init) }

// Fold16 folds a 32-bit accumulator with end-around carry.
func Fold16(x uint32) uint16 {
	s := uint64(x)
	for s>>16 != 0 {
		s = (s & 0xffff) + (s >> 16)
	}
	return uint16(s)
}

// PseudoV4 returns the IPv4 pseudo-header for an upper-layer segment of length n.
func PseudoV4(src, dst [4]byte, proto uint8, n int) []byte {
	b := make([]byte, 12)
	copy(b[0:4], src[:])
	copy(b[4:8], dst[:])
	b[9] = proto
	binary.BigEndian.PutUint16(b[10:], uint16(n))
	return b
}

// PseudoV6 returns the IPv6 pseudo-header (32-bit upper-layer length).
func PseudoV6(src, dst [16]byte, nh uint8, n int) []byte {
	b := make([]byte, 40)
	copy(b[0:16], src[:])
	copy(b[16:32], dst[:])
	binary.BigEndian.PutUint32(b[32:], uint32(n))
	b[39] = nh
	return b
}

func cat(bs ...[]byte) []byte {
	n := 0
	for _, b := range bs {
		n += len(b)
	}
	out := make([]byte, 0, n)
	for _, b := range bs {
		out = append(out, b...)
	}
	return out
}

// Cat concatenates.
func Cat(bs ...[]byte) []byte { return cat(bs...) }

// Eth builds an Ethernet II header + payload.
func Eth(dst, src [6]byte, etype uint16, payload []byte) []byte {
	h := make([]byte, 14)
	copy(h[0:6], dst[:])
	copy(h[6:12], src[:])
	binary.BigEndian.PutUint16(h[12:], etype)
	return cat(h, payload)
}

// Dot1Q builds an 802.1Q tag (to follow an Ethernet header with type 0x8100) + payload.
func Dot1Q(prio uint8, dei bool, vlan uint16, etype uint16, payload []byte) []byte {
	h := make([]byte, 4)
	v := uint16(prio&7)<<13 | vlan&0x0fff
	if dei {
		v |= 0x1000
	}
	binary.BigEndian.PutUint16(h[0:], v)
	binary.BigEndian.PutUint16(h[2:], etype)
	return cat(h, payload)
}

// IPv4H describes an IPv4 header.
type IPv4H struct {
	TOS      uint8
	ID       uint16
	Flags    uint8 // 3 bits: bit2 = reserved(evil), bit1 = DF, bit0 = MF  (as on the wire: 0x4,0x2,0x1)
	FragOff  uint16
	TTL      uint8
	Proto    uint8
	Src, Dst [4]byte
	Options  []byte // raw, must be a multiple of 4 bytes (caller pads)
	// BadLen: when non-zero, written instead of the true total length
	BadLen uint16
}

// IPv4 builds header+payload with correct IHL, total length and header checksum.
func IPv4(h IPv4H, payload []byte) []byte {
	hl := 20 + len(h.Options)
	b := make([]byte, hl)
	b[0] = 0x40 | uint8(hl/4)
	b[1] = h.TOS
	tl := hl + len(payload)
	if h.BadLen != 0 {
		tl = int(h.BadLen)
	}
	binary.BigEndian.PutUint16(b[2:], uint16(tl))
	binary.BigEndian.PutUint16(b[4:], h.ID)
	binary.BigEndian.PutUint16(b[6:], uint16(h.Flags&7)<<13|h.FragOff&0x1fff)
	b[8] = h.TTL
	b[9] = h.Proto
	copy(b[12:16], h.Src[:])
	copy(b[16:20], h.Dst[:])
	copy(b[20:], h.Options)
	binary.BigEndian.PutUint16(b[10:], Cksum1071(b, 0))
	return cat(b, payload)
}

// IPv6H describes the fixed IPv6 header.
type IPv6H struct {
	TC       uint8
	Flow     uint32
	NextHdr  uint8
	HopLimit uint8
	Src, Dst [16]byte
}

// IPv6 builds header+payload (payload includes any extension headers).
func IPv6(h IPv6H, payload []byte) []byte {
	b := make([]byte, 40)
	binary.BigEndian.PutUint32(b[0:], 6<<28|uint32(h.TC)<<20|h.Flow&0xfffff)
	binary.BigEndian.PutUint16(b[4:], uint16(len(payload)))
	b[6] = h.NextHdr
	b[7] = h.HopLimit
	copy(b[8:24], h.Src[:])
	copy(b[24:40], h.Dst[:])
	return cat(b, payload)
}

// IPv6Frag builds an IPv6 fragment extension header.
func IPv6Frag(next uint8, off uint16, more bool, id uint32) []byte {
	b := make([]byte, 8)
	b[0] = next
	v := off << 3
	if more {
		v |= 1
	}
	binary.BigEndian.PutUint16(b[2:], v)
	binary.BigEndian.PutUint32(b[4:], id)
	return b
}

// TCPH describes a TCP header.
type TCPH struct {
	Sport, Dport uint16
	Seq, Ack     uint32
	Flags        uint16 // 9 bits: NS CWR ECE URG ACK PSH RST SYN FIN
	Window       uint16
	Urgent       uint16
	Options      []byte // raw, multiple of 4
}

const (
	FIN = 1 << iota
	SYN
	RST
	PSH
	ACK
	URG
	ECE
	CWR
	NS
)

// TCP builds a TCP segment with the checksum over the given pseudo-header.
func TCP(h TCPH, payload []byte, pseudo func(n int) []byte) []byte {
	hl := 20 + len(h.Options)
	b := make([]byte, hl)
	binary.BigEndian.PutUint16(b[0:], h.Sport)
	binary.BigEndian.PutUint16(b[2:], h.Dport)
	binary.BigEndian.PutUint32(b[4:], h.Seq)
	binary.BigEndian.PutUint32(b[8:], h.Ack)
	binary.BigEndian.PutUint16(b[12:], uint16(hl/4)<<12|h.Flags&0x1ff)
	binary.BigEndian.PutUint16(b[14:], h.Window)
	binary.BigEndian.PutUint16(b[18:], h.Urgent)
	copy(b[20:], h.Options)
	seg := cat(b, payload)
	if pseudo != nil {
		binary.BigEndian.PutUint16(seg[16:], Cksum1071(cat(pseudo(len(seg)), seg), 0))
	}
	return seg
}

// UDP builds a UDP datagram with checksum (0 → 0xffff rule applied).
func UDP(sport, dport uint16, payload []byte, pseudo func(n int) []byte) []byte {
	b := make([]byte, 8)
	binary.BigEndian.PutUint16(b[0:], sport)
	binary.BigEndian.PutUint16(b[2:], dport)
	binary.BigEndian.PutUint16(b[4:], uint16(8+len(payload)))
	seg := cat(b, payload)
	if pseudo != nil {
		c := Cksum1071(cat(pseudo(len(seg)), seg), 0)
		if c == 0 {
			c = 0xffff
		}
		binary.BigEndian.PutUint16(seg[6:], c)
	}
	return seg
}

// ICMP builds an ICMPv4 message (type, code, rest-of-header 4 bytes, payload) with checksum.
func ICMP4(typ, code uint8, rest uint32, payload []byte) []byte {
	b := make([]byte, 8)
	b[0], b[1] = typ, code
	binary.BigEndian.PutUint32(b[4:], rest)
	seg := cat(b, payload)
	binary.BigEndian.PutUint16(seg[2:], Cksum1071(seg, 0))
	return seg
}

// ICMP6 builds an ICMPv6 message (type, code, body) with checksum over the v6 pseudo-header.
func ICMP6(typ, code uint8, body []byte, pseudo func(n int) []byte) []byte {
	b := make([]byte, 4)
	b[0], b[1] = typ, code
	seg := cat(b, body)
	if pseudo != nil {
		binary.BigEndian.PutUint16(seg[2:], Cksum1071(cat(pseudo(len(seg)), seg), 0))
	}
	return seg
}

// A4 / A16 / M6 make fixed-size addresses from slices.
func A4(b []byte) (a [4]byte)   { copy(a[:], b); return }
func A16(b []byte) (a [16]byte) { copy(a[:], b); return }
func M6(b []byte) (a [6]byte)   { copy(a[:], b); return }
