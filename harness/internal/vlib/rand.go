// Package vlib is the shared runtime of the verification children: deterministic PRNG, per-case journal,
// crash/CPU/heap monitors, violation and evidence reporting. It does not import gopacket.
package vlib

import "encoding/binary"

// Rand is a splitmix64 stream; every random choice of every check derives from VERIF_SEED through it.
type Rand struct{ s uint64 }

func NewRand(seed uint64) *Rand { return &Rand{s: seed} }

func (r *Rand) U64() uint64 {
	r.s += 0x9e3779b97f4a7c15
	z := r.s
	z = (z ^ (z >> 30)) * 0xbf58476d1ce4e5b9
	z = (z ^ (z >> 27)) * 0x94d049bb133111eb
	return z ^ (z >> 31)
}

func (r *Rand) U32() uint32 { return uint32(r.U64() >> 32) }
func (r *Rand) U16() uint16 { return uint16(r.U64() >> 48) }
func (r *Rand) Byte() byte  { return byte(r.U64() >> 56) }

// Intn returns a value in [0,n); n<=0 gives 0.
func (r *Rand) Intn(n int) int {
	if n <= 0 {
		return 0
	}
	return int(r.U64() % uint64(n))
}

// Range returns a value in [lo,hi].
func (r *Rand) Range(lo, hi int) int {
	if hi <= lo {
		return lo
	}
	return lo + r.Intn(hi-lo+1)
}

func (r *Rand) Bool() bool { return r.U64()&1 == 1 }

// Chance is true with probability num/den.
func (r *Rand) Chance(num, den int) bool { return r.Intn(den) < num }

func (r *Rand) Bytes(n int) []byte {
	b := make([]byte, n)
	r.Fill(b)
	return b
}

func (r *Rand) Fill(b []byte) {
	i := 0
	for ; i+8 <= len(b); i += 8 {
		binary.LittleEndian.PutUint64(b[i:], r.U64())
	}
	if i < len(b) {
		v := r.U64()
		for ; i < len(b); i++ {
			b[i] = byte(v)
			v >>= 8
		}
	}
}

// Perm returns a permutation of 0..n-1.
func (r *Rand) Perm(n int) []int {
	p := make([]int, n)
	for i := range p {
		p[i] = i
	}
	for i := n - 1; i > 0; i-- {
		j := r.Intn(i + 1)
		p[i], p[j] = p[j], p[i]
	}
	return p
}

// Fork derives an independent stream.
func (r *Rand) Fork() *Rand { return NewRand(r.U64()) }

// Mix hashes several values into a seed.
func Mix(vals ...uint64) uint64 {
	h := uint64(0x243f6a8885a308d3)
	for _, v := range vals {
		h ^= v
		h *= 0x9e3779b97f4a7c15
		h ^= h >> 29
		h *= 0xbf58476d1ce4e5b9
		h ^= h >> 32
	}
	return h
}

// HashBytes is FNV-1a 64 with a final mix, used for case identities.
func HashBytes(bs ...[]byte) uint64 {
	h := uint64(14695981039346656037)
	for _, b := range bs {
		for _, c := range b {
			h ^= uint64(c)
			h *= 1099511628211
		}
		h ^= 0xff
		h *= 1099511628211
	}
	return Mix(h)
}

func HashString(s string) uint64 { return HashBytes([]byte(s)) }
