package vlib

import (
	"bufio"
	"encoding/binary"
	"encoding/hex"
	"encoding/json"
	"fmt"
	"os"
	"os/exec"
	"path/filepath"
	"sort"
	"strconv"
	"strings"
	"sync"
	"time"
)

// Phase describes one family of child processes of a property check.
type Phase struct {
	Name     string
	Bin      string // child binary name under /verif/bin
	Race     bool   // use the -race build (<bin>.race) and parse its race log
	Quick    int    // number of batches (child processes) per tier
	Thorough int
	Procs    int // GOMAXPROCS of each child (default 1)
	Parallel int // children in flight (default 16/Procs)
	TimeoutS int // wall-clock backstop per child; its firing is inconclusive, never a violation
	Env      []string
}

// PropSpec is the driver-side description of one property check.
type PropSpec struct {
	ID          string
	Level       string
	Rule        string
	Assumptions []string
	Phases      []Phase
	Require     []string // counters that must be > 0, otherwise the run observed nothing of that kind: exit 2
	Exhaustive  func(tier string) bool
	// CrashAnywhere: the property promises that decoding any input never ends the process, so a process-fatal error in
	// library code counts also when it happens while the child is still building its inputs (outside any case)
	CrashAnywhere bool
}

type agg struct {
	mu        sync.Mutex
	evals     int64
	counters  map[string]int64
	lists     map[string]map[string]int64
	samples   []json.RawMessage
	phSamples map[string]int
	nt        map[uint64]struct{}
	viol      map[string]*violAgg
	inconcl   []string
	crashes   int
	raceBlock int
}

type violAgg struct {
	Key, Desc, Replay string
	N                 int64
}

func (a *agg) addViol(key, desc, replay string, n int64) {
	a.mu.Lock()
	defer a.mu.Unlock()
	v := a.viol[key]
	if v == nil {
		v = &violAgg{Key: key, Desc: desc, Replay: replay}
		a.viol[key] = v
	}
	if v.Replay == "" {
		v.Replay = replay
	}
	if v.Desc == "" {
		v.Desc = desc
	}
	v.N += n
}

func root() string {
	if r := os.Getenv("VERIF_ROOT"); r != "" {
		return r
	}
	return "/verif"
}

// DriverMain runs one property check: spawns the children of every phase, aggregates, matches known findings,
// writes evidence, prints VIOLATION / KNOWN-FINDING lines and returns the exit code.
func DriverMain(spec PropSpec, tier string, seed uint64) int {
	t0 := time.Now()
	work := filepath.Join(root(), "work", spec.ID)
	os.RemoveAll(work)
	os.MkdirAll(work, 0o755)
	os.RemoveAll(filepath.Join(root(), "replays", spec.ID))
	a := &agg{counters: map[string]int64{}, lists: map[string]map[string]int64{}, phSamples: map[string]int{}, nt: map[uint64]struct{}{}, viol: map[string]*violAgg{}}
	if os.Getenv("VERIF_COVER") != "" {
		os.MkdirAll(filepath.Join(work, "cov"), 0o755)
	}
	for _, ph := range spec.Phases {
		tp := time.Now()
		runPhase(spec, ph, tier, seed, work, a)
		fmt.Printf("  phase %-14s %.1fs\n", ph.Name, time.Since(tp).Seconds())
	}
	known := LoadFindings(filepath.Join(root(), "known_findings.txt"), spec.ID)
	exit := 0
	var keys []string
	for k := range a.viol {
		keys = append(keys, k)
	}
	sort.Strings(keys)
	nviol, nknown := 0, 0
	for _, k := range keys {
		v := a.viol[k]
		if f := known.Match(k); f != nil {
			fmt.Printf("KNOWN-FINDING: property=%s key=%s :: %s (observed %d times this run)\n", spec.ID, k, f.Desc, v.N)
			nknown++
			continue
		}
		fmt.Printf("VIOLATION property=%s replay=%s key=%s :: %s (x%d)\n", spec.ID, v.Replay, k, v.Desc, v.N)
		nviol++
		exit = 1
	}
	for _, f := range known.Unseen(a.viol) {
		// a listed finding that this run did not reproduce is still announced, so the list is visible on every run
		fmt.Printf("KNOWN-FINDING: property=%s key=%s :: %s (listed; not reproduced by this run's cases)\n", spec.ID, f.Key, f.Desc)
	}
	for _, s := range a.inconcl {
		fmt.Printf("INCONCLUSIVE property=%s %s\n", spec.ID, s)
	}
	missing := []string{}
	for _, r := range spec.Require {
		if a.counters[r] <= 0 {
			missing = append(missing, r)
		}
	}
	if a.evals == 0 {
		missing = append(missing, "evaluations")
	}
	if len(missing) > 0 && exit == 0 {
		fmt.Printf("INCONCLUSIVE property=%s the monitors observed no events of kind(s) %v; nothing is claimed\n", spec.ID, missing)
		exit = 2
	}
	if a.counters["harness_race"] > 0 && exit == 0 {
		fmt.Printf("INCONCLUSIVE property=%s race report wholly inside harness code (harness bug)\n", spec.ID)
		exit = 2
	}
	// evidence
	cov := map[string]any{
		"evaluations":         a.evals,
		"distinct_nontrivial": len(a.nt),
		"rule":                spec.Rule,
		"samples":             a.samples,
		"observed":            a.counters,
		"inconclusive_cases":  len(a.inconcl),
		"child_crashes":       a.crashes,
		"known_findings_seen": nknown,
	}
	if len(a.samples) == 0 {
		cov["samples"] = []string{"(no sample recorded)"}
	}
	for k, m := range a.lists {
		cov[k] = m
	}
	if os.Getenv("VERIF_COVER") != "" {
		cov["library_functions_entered_by_the_workload"] = functionCoverage(filepath.Join(work, "cov"))
	}
	if spec.Exhaustive != nil && spec.Exhaustive(tier) {
		cov["exhaustive"] = true
	}
	ev := map[string]any{
		"property_id": spec.ID, "tier": tier, "seed": seed, "level": spec.Level, "coverage": cov,
		"assumptions": spec.Assumptions, "wall_s": time.Since(t0).Seconds(), "violations": nviol,
	}
	b, _ := json.MarshalIndent(ev, "", " ")
	os.MkdirAll(filepath.Join(root(), "evidence"), 0o755)
	os.WriteFile(filepath.Join(root(), "evidence", spec.ID+".json"), append(b, '\n'), 0o644)
	fmt.Printf("%s %s seed=%d: evaluations=%d distinct_nontrivial=%d violations=%d known=%d inconclusive=%d crashes=%d wall=%.1fs exit=%d\n",
		spec.ID, tier, seed, a.evals, len(a.nt), nviol, nknown, len(a.inconcl), a.crashes, time.Since(t0).Seconds(), exit)
	var cks []string
	for k := range a.counters {
		cks = append(cks, k)
	}
	sort.Strings(cks)
	for _, k := range cks {
		if !strings.HasPrefix(k, "viol:") {
			fmt.Printf("  observed %-40s %d\n", k, a.counters[k])
		}
	}
	return exit
}

func runPhase(spec PropSpec, ph Phase, tier string, seed uint64, work string, a *agg) {
	n := ph.Quick
	if tier == "thorough" {
		n = ph.Thorough
	}
	if n <= 0 {
		return
	}
	procs := ph.Procs
	if procs <= 0 {
		procs = 1
	}
	par := ph.Parallel
	if par <= 0 {
		par = 16 / procs
		if par < 1 {
			par = 1
		}
	}
	sem := make(chan struct{}, par)
	var wg sync.WaitGroup
	for b := 0; b < n; b++ {
		wg.Add(1)
		sem <- struct{}{}
		go func(b int) {
			defer wg.Done()
			defer func() { <-sem }()
			runBatch(spec, ph, tier, seed, work, b, n, procs, a)
		}(b)
	}
	wg.Wait()
}

func binPath(ph Phase) string {
	p := filepath.Join(root(), "bin", ph.Bin)
	if ph.Race {
		p += ".race"
	} else if os.Getenv("VERIF_COVER") != "" {
		p += ".cover"
	}
	return p
}

// functionCoverage summarises the counters that coverage-instrumented children left in dir: per source file of the
// library, how many functions the workload entered and which it never entered.
func functionCoverage(dir string) map[string]any {
	vgo := os.Getenv("VGO")
	if vgo == "" {
		vgo = "go"
	}
	out, err := exec.Command(vgo, "tool", "covdata", "func", "-i="+dir).Output()
	if err != nil {
		return map[string]any{"error": err.Error()}
	}
	type fc struct {
		n, entered int
		never      []string
	}
	files := map[string]*fc{}
	for _, ln := range strings.Split(string(out), "\n") {
		f := strings.Fields(ln)
		if len(f) < 3 || !strings.Contains(f[0], "gopacket/gopacket/") {
			continue
		}
		file := f[0][strings.Index(f[0], "gopacket/gopacket/")+len("gopacket/gopacket/"):]
		if i := strings.Index(file, ":"); i >= 0 {
			file = file[:i]
		}
		x := files[file]
		if x == nil {
			x = &fc{}
			files[file] = x
		}
		x.n++
		if f[len(f)-1] != "0.0%" {
			x.entered++
		} else {
			x.never = append(x.never, f[1])
		}
	}
	res := map[string]any{}
	total, entered := 0, 0
	for file, x := range files {
		if x.entered == 0 {
			continue // a file the workload never touched is outside what this property drives
		}
		total += x.n
		entered += x.entered
		e := map[string]any{"functions": x.n, "entered": x.entered}
		if len(x.never) > 0 && len(x.never) <= 40 {
			e["never_entered"] = x.never
		}
		res[file] = e
	}
	res["_summary"] = map[string]any{"files_touched": len(res), "functions_in_touched_files": total, "functions_entered": entered}
	return res
}

func runBatch(spec PropSpec, ph Phase, tier string, seed uint64, work string, b, n, procs int, a *agg) {
	out := filepath.Join(work, fmt.Sprintf("%s-b%d", ph.Name, b))
	start := 0
	timeout := ph.TimeoutS
	if timeout <= 0 {
		timeout = 1500
		if tier == "thorough" {
			timeout = 7200
		}
	}
	for run := 0; ; run++ {
		args := []string{"-s", "QUIT", "-k", "20", strconv.Itoa(timeout), binPath(ph),
			"-prop", spec.ID, "-phase", ph.Name, "-tier", tier, "-seed", strconv.FormatUint(seed, 10),
			"-batch", strconv.Itoa(b), "-nbatch", strconv.Itoa(n), "-start", strconv.Itoa(start), "-run", strconv.Itoa(run), "-out", out}
		cmd := exec.Command("timeout", args...)
		cmd.Env = append(os.Environ(), "GOMAXPROCS="+strconv.Itoa(procs), "VERIF_ROOT="+root())
		if ph.Race {
			cmd.Env = append(cmd.Env, "GORACE=halt_on_error=0 exitcode=0 history_size=3 log_path="+out+".race")
		} else if os.Getenv("VERIF_COVER") != "" {
			cmd.Env = append(cmd.Env, "GOCOVERDIR="+filepath.Join(work, "cov"))
		}
		cmd.Env = append(cmd.Env, ph.Env...)
		cmd.Env = append(cmd.Env, "VERIF_LASTINPUT="+out+".lastinput")
		errPath := fmt.Sprintf("%s.run%d.stderr", out, run)
		ef, _ := os.Create(errPath)
		cmd.Stdout, cmd.Stderr = ef, ef
		err := cmd.Run()
		ef.Close()
		last, open, runaway, done := readJournal(out + ".journal")
		if done && (err == nil || !open) {
			break // ran to completion (a race-detector build may still exit non-zero)
		}
		code := -1
		if ee, ok := err.(*exec.ExitError); ok {
			code = ee.ExitCode()
		}
		stderrTxt := tail(errPath, 1<<20)
		if code == 2 && !open {
			// A Go process also exits with 2 on a process-fatal error. When that happened in library code while the corpus
			// was being built (library code running outside any case), the properties that promise crash-free decoding of
			// any input are refuted by it; for every other property nothing was decided.
			fn := innermostRepoFunc(stderrTxt)
			fatal := strings.Contains(stderrTxt, "fatal error: ") || strings.Contains(stderrTxt, "goroutine stack exceeds")
			if fatal && fn != "?" && spec.CrashAnywhere {
				key, desc := classifyCrash(stderrTxt, "")
				key = "while-building-inputs:" + key
				rp := ReplayPath(spec.ID, key, b, -1)
				os.MkdirAll(filepath.Dir(rp), 0o755)
				det := map[string]any{"stderr_tail": tail(errPath, 6000), "exit_code": code}
				if li, err := os.ReadFile(out + ".lastinput"); err == nil && len(li) >= 8 {
					n := int(binary.LittleEndian.Uint32(li[4:8]))
					if n <= len(li)-8 {
						det["first_layer_type_number"] = binary.LittleEndian.Uint32(li[:4])
						det["input_hex"] = hex.EncodeToString(li[8 : 8+n])
					}
				}
				r := Replay{Prop: spec.ID, Phase: ph.Name, Tier: tier, Seed: seed, Batch: b, NBatch: n, Case: -1, Key: key,
					Desc: "decoding an input that the corpus builder tried ended the process: " + desc, Detail: det,
					How: "gopacket.NewPacket(input, first layer type, gopacket.DecodeOptions{NoCopy: true})"}
				jb, _ := json.MarshalIndent(r, "", " ")
				os.WriteFile(rp, jb, 0o644)
				a.addViol(key, r.Desc, rp, 1)
				break
			}
			a.mu.Lock()
			a.inconcl = append(a.inconcl, fmt.Sprintf("phase=%s batch=%d child could not start: %s", ph.Name, b, firstLine(stderrTxt)))
			a.mu.Unlock()
			break
		}
		if (code == 124 || code == 137 || strings.Contains(stderrTxt, "SIGQUIT: quit")) && runaway == "" {
			// wall-clock backstop fired without the CPU/heap budget being exceeded: inconclusive
			a.mu.Lock()
			a.inconcl = append(a.inconcl, fmt.Sprintf("phase=%s batch=%d case=%d wall-clock backstop (%ds) fired; stderr=%s", ph.Name, b, last, timeout, errPath))
			a.mu.Unlock()
			if !open {
				break
			}
			start = int(last) + 1
			continue
		}
		// the child died inside a case: a process-fatal error or a runaway. Attribute it to that case.
		a.mu.Lock()
		a.crashes++
		a.mu.Unlock()
		key, desc := classifyCrash(stderrTxt, runaway)
		if runaway != "" && strings.HasPrefix(key, "runaway@?:") {
			// the budget ran out while no library function was executing: the harness's own work (comparing, rendering) on
			// this case was too expensive. That says nothing about the property either way.
			a.mu.Lock()
			a.crashes--
			a.inconcl = append(a.inconcl, fmt.Sprintf("phase=%s batch=%d case=%d the case exceeded its budget inside the harness (no library frame running): %s", ph.Name, b, last, runaway))
			a.mu.Unlock()
			if !open && !done {
				break
			}
			start = int(last) + 1
			continue
		}
		rp := ReplayPath(spec.ID, key, b, last)
		os.MkdirAll(filepath.Dir(rp), 0o755)
		r := Replay{Prop: spec.ID, Phase: ph.Name, Tier: tier, Seed: seed, Batch: b, NBatch: n, Case: last, Key: key, Desc: desc,
			Detail: map[string]any{"stderr_tail": tail(errPath, 6000), "exit_code": code}, How: fmt.Sprintf("/verif/run %s replay %s", spec.ID, rp)}
		jb, _ := json.MarshalIndent(r, "", " ")
		os.WriteFile(rp, jb, 0o644)
		a.addViol(key, desc, rp, 1)
		if !open && !done {
			// died outside any case (init or epilogue): cannot continue this batch
			break
		}
		start = int(last) + 1
		if run > 200 {
			a.mu.Lock()
			a.inconcl = append(a.inconcl, fmt.Sprintf("phase=%s batch=%d gave up after 200 child crashes", ph.Name, b))
			a.mu.Unlock()
			break
		}
	}
	// collect results of all runs of this batch
	collect(out, a)
	if ph.Race {
		collectRaces(out, spec.ID, ph, tier, seed, b, n, a)
	}
}

func firstLine(s string) string {
	if i := strings.IndexByte(s, '\n'); i >= 0 {
		return s[:i]
	}
	return s
}

func tail(path string, n int64) string {
	f, err := os.Open(path)
	if err != nil {
		return ""
	}
	defer f.Close()
	st, _ := f.Stat()
	if st.Size() > n {
		// keep the head too: the panic message comes first
		head := make([]byte, n/2)
		f.Read(head)
		f.Seek(st.Size()-n/2, 0)
		tl := make([]byte, n/2)
		m, _ := f.Read(tl)
		return string(head) + "\n...\n" + string(tl[:m])
	}
	b := make([]byte, st.Size())
	m, _ := f.Read(b)
	return string(b[:m])
}

func readJournal(path string) (last int64, open bool, runaway string, done bool) {
	f, err := os.Open(path)
	if err != nil {
		return -1, false, "", false
	}
	defer f.Close()
	last = -1
	sc := bufio.NewScanner(f)
	sc.Buffer(make([]byte, 1<<20), 1<<20)
	for sc.Scan() {
		l := sc.Text()
		switch {
		case strings.HasPrefix(l, "B "):
			last, _ = strconv.ParseInt(l[2:], 10, 64)
			open = true
			done = false
		case strings.HasPrefix(l, "E "):
			open = false
		case strings.HasPrefix(l, "R "):
			runaway = l
		case l == "DONE":
			done = true
		}
	}
	return
}

// classifyCrash derives a finding key from a dead child's stderr.
func classifyCrash(stderr, runaway string) (key, desc string) {
	if runaway != "" {
		f := strings.Fields(runaway)
		kind := "RUNAWAY"
		if len(f) > 2 {
			kind = f[2]
		}
		fn := innermostRepoFunc(stderr)
		return "runaway@" + fn + ":" + kind, "case exceeded the CPU/heap budget: " + runaway
	}
	msg := ""
	for _, l := range strings.Split(stderr, "\n") {
		if strings.HasPrefix(l, "panic: ") || strings.HasPrefix(l, "fatal error: ") || strings.HasPrefix(l, "runtime: goroutine stack exceeds") {
			msg = l
			if strings.HasPrefix(l, "fatal error: ") || strings.HasPrefix(l, "panic: ") {
				break
			}
		}
	}
	if msg == "" {
		msg = "child died: " + firstLine(stderr)
	}
	fn := innermostRepoFunc(stderr)
	return "fatal@" + fn + ":" + msgClass(msg), "child process died: " + msg
}

// innermostRepoFunc finds the first gopacket frame in a goroutine dump.
func innermostRepoFunc(stderr string) string {
	for _, l := range strings.Split(stderr, "\n") {
		if strings.HasPrefix(l, repoMod) {
			if i := strings.LastIndexByte(l, '('); i > 0 {
				l = l[:i]
			}
			return shortFunc(l)
		}
	}
	return "?"
}

func collect(out string, a *agg) {
	// nontrivial hashes
	if b, err := os.ReadFile(out + ".nt"); err == nil {
		a.mu.Lock()
		for i := 0; i+8 <= len(b); i += 8 {
			a.nt[binary.LittleEndian.Uint64(b[i:])] = struct{}{}
		}
		a.mu.Unlock()
	}
	f, err := os.Open(out + ".res")
	if err != nil {
		return
	}
	defer f.Close()
	lastStat := map[int]resLine{}
	sc := bufio.NewScanner(f)
	sc.Buffer(make([]byte, 1<<24), 1<<24)
	viols := map[string]resLine{}
	for sc.Scan() {
		var l resLine
		if json.Unmarshal(sc.Bytes(), &l) != nil {
			continue
		}
		switch l.T {
		case "stat":
			lastStat[l.Run] = l
		case "viol":
			if _, ok := viols[fmt.Sprint(l.Run, l.Key)]; !ok {
				viols[fmt.Sprint(l.Run, l.Key)] = l
			}
		case "inconclusive":
			a.mu.Lock()
			if len(a.inconcl) < 50 {
				a.inconcl = append(a.inconcl, fmt.Sprintf("%s case=%d: %s", filepath.Base(out), l.Case, l.Inconcl))
			}
			a.mu.Unlock()
		}
	}
	counted := map[string]bool{}
	for _, st := range lastStat {
		a.mu.Lock()
		a.evals += st.Evals
		for k, v := range st.Counters {
			if strings.HasPrefix(k, "viol:") {
				continue
			}
			a.counters[k] += v
		}
		for t, m := range st.Lists {
			am := a.lists[t]
			if am == nil {
				am = map[string]int64{}
				a.lists[t] = am
			}
			for k, v := range m {
				am[k] += v
			}
		}
		ph := filepath.Base(out)
		if i := strings.LastIndex(ph, "-b"); i > 0 {
			ph = ph[:i]
		}
		for _, s := range st.Samples {
			if a.phSamples[ph] < 2 {
				a.phSamples[ph]++
				a.samples = append(a.samples, json.RawMessage(fmt.Sprintf(`{"phase":%q,"case":%s}`, ph, s)))
			}
		}
		a.mu.Unlock()
		for k, v := range st.Counters {
			if strings.HasPrefix(k, "viol:") {
				key := strings.TrimPrefix(k, "viol:")
				vl := viols[fmt.Sprint(st.Run, key)]
				a.addViol(key, vl.Desc, vl.Replay, v)
				counted[fmt.Sprint(st.Run, key)] = true
			}
		}
	}
	for id, vl := range viols {
		if !counted[id] {
			a.addViol(vl.Key, vl.Desc, vl.Replay, 1)
		}
	}
}

// ReplayMain re-runs the single case recorded in a replay file.
func ReplayMain(specs map[string]PropSpec, path string) int {
	b, err := os.ReadFile(path)
	if err != nil {
		fmt.Println(err)
		return 2
	}
	var r Replay
	if err := json.Unmarshal(b, &r); err != nil {
		fmt.Println(err)
		return 2
	}
	spec, ok := specs[r.Prop]
	if !ok {
		fmt.Println("unknown property", r.Prop)
		return 2
	}
	for _, ph := range spec.Phases {
		if ph.Name != r.Phase {
			continue
		}
		out := filepath.Join(root(), "work", "replay", fmt.Sprintf("%s-%d", r.Prop, os.Getpid()))
		os.MkdirAll(filepath.Dir(out), 0o755)
		cmd := exec.Command(binPath(ph), "-prop", r.Prop, "-phase", r.Phase, "-tier", r.Tier, "-seed", strconv.FormatUint(r.Seed, 10),
			"-batch", strconv.Itoa(r.Batch), "-nbatch", strconv.Itoa(r.NBatch), "-only", strconv.FormatInt(r.Case, 10), "-out", out)
		procs := ph.Procs
		if procs <= 0 {
			procs = 1
		}
		cmd.Env = append(os.Environ(), "GOMAXPROCS="+strconv.Itoa(procs), "VERIF_ROOT="+root())
		cmd.Env = append(cmd.Env, ph.Env...)
		cmd.Stdout, cmd.Stderr = os.Stdout, os.Stderr
		err := cmd.Run()
		fmt.Printf("replay of %s case %d (key %s) finished: %v\n", r.Prop, r.Case, r.Key, err)
		if rb, e := os.ReadFile(out + ".res"); e == nil && strings.Contains(string(rb), `"t":"viol"`) {
			fmt.Printf("VIOLATION property=%s replay=%s (reproduced)\n", r.Prop, path)
			return 1
		}
		if err != nil {
			fmt.Printf("VIOLATION property=%s replay=%s (child died again)\n", r.Prop, path)
			return 1
		}
		return 0
	}
	fmt.Println("unknown phase", r.Phase)
	return 2
}
