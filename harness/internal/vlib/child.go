package vlib

import (
	"encoding/binary"
	"encoding/json"
	"flag"
	"fmt"
	"os"
	"path/filepath"
	"regexp"
	"runtime"
	"runtime/debug"
	"runtime/metrics"
	"sort"
	"strings"
	"sync"
	"sync/atomic"
	"syscall"
	"time"
)

// Ctx is what a monitor family sees inside a child process.
type Ctx struct {
	Prop, Phase, Tier string
	Seed              uint64
	Batch, NBatch     int
	Start, Only       int
	Out               string // path prefix for this batch's files
	RunID             int

	mu        sync.Mutex
	journal   *os.File
	res       *os.File
	nt        *os.File
	ntBuf     []byte
	evals     int64
	counters  map[string]int64
	samples   []json.RawMessage
	seenKeys  map[string]int
	cur       int64 // current case index (atomic), -1 when idle
	curTick   int64
	caseCount int64
	lists     map[string]map[string]int64
	cpuBudget int64 // seconds of process CPU one case may burn (atomic)
	memBudget uint64
	inCase    bool
}

func (c *Ctx) Quick() bool { return c.Tier != "thorough" }

// Pick returns q for the quick tier and t for thorough.
func (c *Ctx) Pick(q, t int) int {
	if c.Quick() {
		return q
	}
	return t
}

// Rand returns the PRNG stream of (seed, property, phase, batch, extra...).
func (c *Ctx) Rand(extra ...uint64) *Rand {
	v := []uint64{c.Seed, HashString(c.Prop), HashString(c.Phase), uint64(c.Batch)}
	v = append(v, extra...)
	return NewRand(Mix(v...))
}

// Begin journals the start of case idx; it returns false when the case is to be skipped (restart after a crash,
// or replay of another case).
func (c *Ctx) Begin(idx int) bool {
	if idx < c.Start || (c.Only >= 0 && idx != c.Only) {
		return false
	}
	atomic.StoreInt64(&c.cur, int64(idx))
	atomic.AddInt64(&c.curTick, 1)
	fmt.Fprintf(c.journal, "B %d\n", idx)
	c.inCase = true
	c.evals++
	c.caseCount++
	if c.caseCount&4095 == 0 {
		c.checkpoint()
	}
	return true
}

// EndHook, when set, runs at the end of every case while the case is still open (so that it can report violations): the
// place for canaries over package-level state of the library.
var EndHook func(c *Ctx)

// End journals the end of the current case.
func (c *Ctx) End() {
	if EndHook != nil {
		EndHook(c)
	}
	idx := atomic.LoadInt64(&c.cur)
	fmt.Fprintf(c.journal, "E %d\n", idx)
	atomic.StoreInt64(&c.cur, -1)
	c.inCase = false
}

// Step marks the start of another unit of work inside the current case (see Evals): the watchdog's CPU budget restarts.
func (c *Ctx) Step() { atomic.AddInt64(&c.curTick, 1) }

// Evals adds n to the number of evaluations (Begin already counts one per case).
func (c *Ctx) Evals(n int) {
	// one more unit of work finished: the CPU budget of the watchdog is per unit (one library call sequence on one
	// input / one history), not per case - a case may hold hundreds of units and a loaded machine inflates their sum
	atomic.AddInt64(&c.curTick, 1)
	c.mu.Lock()
	c.evals += int64(n)
	c.mu.Unlock()
}

// Count adds n to a named observation counter reported in the evidence.
func (c *Ctx) Count(name string, n int) {
	c.mu.Lock()
	c.counters[name] += int64(n)
	c.mu.Unlock()
}

// CountIn adds n to item of a named table (e.g. per layer type counts).
func (c *Ctx) CountIn(table, item string, n int) {
	c.mu.Lock()
	m := c.lists[table]
	if m == nil {
		m = map[string]int64{}
		c.lists[table] = m
	}
	m[item] += int64(n)
	c.mu.Unlock()
}

// NonTrivial records the identity of a case that is non-trivial by the property's rule; the driver counts distinct ones.
func (c *Ctx) NonTrivial(h uint64) {
	c.mu.Lock()
	c.ntBuf = binary.LittleEndian.AppendUint64(c.ntBuf, h)
	if len(c.ntBuf) >= 1<<16 {
		c.nt.Write(c.ntBuf)
		c.ntBuf = c.ntBuf[:0]
	}
	c.mu.Unlock()
}

// Sample keeps the first few actual cases for the evidence file.
func (c *Ctx) Sample(v any) {
	c.mu.Lock()
	defer c.mu.Unlock()
	if len(c.samples) >= 2 {
		return
	}
	b, err := json.Marshal(v)
	if err == nil {
		if len(b) > 4000 {
			b, _ = json.Marshal(string(b[:4000]) + "...")
		}
		c.samples = append(c.samples, b)
	}
}

func (c *Ctx) WantSample() bool {
	c.mu.Lock()
	defer c.mu.Unlock()
	return len(c.samples) < 2
}

type resLine struct {
	T        string                      `json:"t"`
	Run      int                         `json:"run"`
	Key      string                      `json:"key,omitempty"`
	Desc     string                      `json:"desc,omitempty"`
	Case     int64                       `json:"case"`
	Replay   string                      `json:"replay,omitempty"`
	N        int                         `json:"n,omitempty"`
	Evals    int64                       `json:"evals,omitempty"`
	Counters map[string]int64            `json:"counters,omitempty"`
	Lists    map[string]map[string]int64 `json:"lists,omitempty"`
	Samples  []json.RawMessage           `json:"samples,omitempty"`
	Inconcl  string                      `json:"inconclusive,omitempty"`
}

// Replay is the witness file of one violation.
type Replay struct {
	Prop   string `json:"property"`
	Phase  string `json:"phase"`
	Tier   string `json:"tier"`
	Seed   uint64 `json:"seed"`
	Batch  int    `json:"batch"`
	NBatch int    `json:"nbatch"`
	Case   int64  `json:"case"`
	Key    string `json:"key"`
	Desc   string `json:"desc"`
	Detail any    `json:"detail,omitempty"`
	How    string `json:"how_to_replay"`
}

// Violation reports that the property was refuted by the current case. key identifies *what* fails (it is what
// known_findings.txt lists); detail goes into the replay file.
func (c *Ctx) Violation(key, desc string, detail any) {
	c.mu.Lock()
	defer c.mu.Unlock()
	key = strings.Join(strings.Fields(key), "_")
	c.seenKeys[key]++
	if c.seenKeys[key] > 1 {
		return // counted; reported once per child run with its count at checkpoint
	}
	idx := atomic.LoadInt64(&c.cur)
	rp := ReplayPath(c.Prop, key, c.Batch, idx)
	os.MkdirAll(filepath.Dir(rp), 0o755)
	r := Replay{Prop: c.Prop, Phase: c.Phase, Tier: c.Tier, Seed: c.Seed, Batch: c.Batch, NBatch: c.NBatch, Case: idx, Key: key, Desc: desc, Detail: detail,
		How: fmt.Sprintf("/verif/run %s replay %s", c.Prop, rp)}
	b, _ := json.MarshalIndent(r, "", " ")
	os.WriteFile(rp, b, 0o644)
	c.writeRes(resLine{T: "viol", Run: c.RunID, Key: key, Desc: desc, Case: idx, Replay: rp})
	if c.Only >= 0 {
		fmt.Printf("replayed: violation key=%s :: %s\n", key, desc)
	}
}

// Inconclusive records that a case could not be decided (checker timeout, overloaded machine).
func (c *Ctx) Inconclusive(why string) {
	c.mu.Lock()
	defer c.mu.Unlock()
	c.counters["inconclusive"]++
	c.writeRes(resLine{T: "inconclusive", Run: c.RunID, Inconcl: why, Case: atomic.LoadInt64(&c.cur)})
}

func ReplayPath(prop, key string, batch int, idx int64) string {
	root := os.Getenv("VERIF_ROOT")
	if root == "" {
		root = "/verif"
	}
	return filepath.Join(root, "replays", prop, fmt.Sprintf("%016x-b%d-c%d.json", HashString(key), batch, idx))
}

func (c *Ctx) writeRes(l resLine) {
	b, _ := json.Marshal(l)
	b = append(b, '\n')
	c.res.Write(b)
}

func (c *Ctx) checkpoint() {
	c.mu.Lock()
	defer c.mu.Unlock()
	if len(c.ntBuf) > 0 {
		c.nt.Write(c.ntBuf)
		c.ntBuf = c.ntBuf[:0]
	}
	cc := map[string]int64{}
	for k, v := range c.counters {
		cc[k] = v
	}
	for k, n := range c.seenKeys {
		cc["viol:"+k] = int64(n)
	}
	c.writeRes(resLine{T: "stat", Run: c.RunID, Evals: c.evals, Counters: cc, Lists: c.lists, Samples: c.samples})
}

// PanicInfo describes a recovered panic.
type PanicInfo struct {
	Value string
	Key   string // panic@<innermost gopacket function>:<message class>
	Func  string
	File  string
	Line  int
	Stack string
	Addr  uintptr // faulting address when the panic is a memory fault (debug.SetPanicOnFault)
}

var digits = regexp.MustCompile(`[0-9]+`)
var hexaddr = regexp.MustCompile(`0x[0-9a-f]+`)

func msgClass(s string) string {
	s = hexaddr.ReplaceAllString(s, "X")
	s = digits.ReplaceAllString(s, "N")
	if i := strings.IndexByte(s, '\n'); i >= 0 {
		s = s[:i]
	}
	if len(s) > 60 {
		s = s[:60]
	}
	return strings.Join(strings.Fields(s), "_")
}

const repoMod = "github.com/gopacket/gopacket"

func shortFunc(fn string) string {
	fn = strings.TrimPrefix(fn, repoMod)
	fn = strings.TrimPrefix(fn, "/")
	if fn == "" {
		return "?"
	}
	if fn[0] == '.' {
		fn = "gopacket" + fn
	}
	return fn
}

// Guard runs fn and converts a panic into a PanicInfo (nil when fn returned normally).
func Guard(fn func()) (pi *PanicInfo) {
	defer func() {
		if r := recover(); r != nil {
			pi = &PanicInfo{Value: fmt.Sprint(r)}
			if ae, ok := r.(interface{ Addr() uintptr }); ok {
				pi.Addr = ae.Addr()
			}
			pcs := make([]uintptr, 64)
			n := runtime.Callers(2, pcs)
			frames := runtime.CallersFrames(pcs[:n])
			var sb strings.Builder
			for {
				f, more := frames.Next()
				fmt.Fprintf(&sb, "%s\n\t%s:%d\n", f.Function, f.File, f.Line)
				if pi.Func == "" && strings.HasPrefix(f.Function, repoMod) {
					pi.Func, pi.File, pi.Line = shortFunc(f.Function), f.File, f.Line
				}
				if !more {
					break
				}
			}
			pi.Stack = sb.String()
			if pi.Func == "" {
				pi.Func = "outside-gopacket"
			}
			pi.Key = "panic@" + pi.Func + ":" + msgClass(pi.Value)
		}
	}()
	fn()
	return nil
}

func cpuSeconds() float64 {
	var ru syscall.Rusage
	syscall.Getrusage(syscall.RUSAGE_SELF, &ru)
	return float64(ru.Utime.Sec) + float64(ru.Utime.Usec)/1e6 + float64(ru.Stime.Sec) + float64(ru.Stime.Usec)/1e6
}

func (c *Ctx) watchdog() {
	var lastTick int64 = -1
	var cpuAt float64
	sample := []metrics.Sample{{Name: "/memory/classes/heap/objects:bytes"}}
	for {
		time.Sleep(250 * time.Millisecond)
		tick := atomic.LoadInt64(&c.curTick)
		cur := atomic.LoadInt64(&c.cur)
		now := cpuSeconds()
		if tick != lastTick || cur < 0 {
			lastTick, cpuAt = tick, now
			continue
		}
		metrics.Read(sample)
		heap := sample[0].Value.Uint64()
		if now-cpuAt >= float64(atomic.LoadInt64(&c.cpuBudget)) || heap >= atomic.LoadUint64(&c.memBudget) {
			kind := "RUNAWAY-CPU"
			if heap >= atomic.LoadUint64(&c.memBudget) {
				kind = "RUNAWAY-MEM"
			}
			fmt.Fprintf(c.journal, "R %d %s cpu=%.1f heap=%d\n", cur, kind, now-cpuAt, heap)
			buf := make([]byte, 1<<20)
			n := runtime.Stack(buf, true)
			os.Stderr.Write(buf[:n])
			os.Exit(3)
		}
	}
}

// SetBudget changes the per-case CPU (seconds) and heap (bytes) budgets of the watchdog.
func (c *Ctx) SetBudget(cpuS int64, heap uint64) {
	atomic.StoreInt64(&c.cpuBudget, cpuS)
	atomic.StoreUint64(&c.memBudget, heap)
}

// PhaseFunc is one monitor family for one property.
type PhaseFunc func(c *Ctx)

var registry = map[string]PhaseFunc{}

// Register makes a phase available under "<prop>/<phase>".
func Register(prop, phase string, f PhaseFunc) { registry[prop+"/"+phase] = f }

// ChildMain is the main() of every child binary.
func ChildMain() {
	var c Ctx
	var seed uint64
	flag.StringVar(&c.Prop, "prop", "", "property id")
	flag.StringVar(&c.Phase, "phase", "", "phase name")
	flag.StringVar(&c.Tier, "tier", "quick", "quick|thorough")
	flag.Uint64Var(&seed, "seed", 1, "VERIF_SEED")
	flag.IntVar(&c.Batch, "batch", 0, "batch index")
	flag.IntVar(&c.NBatch, "nbatch", 1, "number of batches")
	flag.IntVar(&c.Start, "start", 0, "first case index to run")
	flag.IntVar(&c.Only, "only", -1, "run only this case index")
	flag.IntVar(&c.RunID, "run", 0, "run id (restarts)")
	flag.StringVar(&c.Out, "out", "", "output path prefix")
	list := flag.Bool("list", false, "list phases")
	flag.Parse()
	if *list {
		var ks []string
		for k := range registry {
			ks = append(ks, k)
		}
		sort.Strings(ks)
		fmt.Println(strings.Join(ks, "\n"))
		return
	}
	c.Seed = seed
	f := registry[c.Prop+"/"+c.Phase]
	if f == nil {
		fmt.Fprintf(os.Stderr, "unknown phase %s/%s\n", c.Prop, c.Phase)
		os.Exit(2)
	}
	if c.Out == "" {
		c.Out = filepath.Join(os.TempDir(), fmt.Sprintf("vchild-%d", os.Getpid()))
	}
	os.MkdirAll(filepath.Dir(c.Out), 0o755)
	var err error
	open := func(suffix string) *os.File {
		f, e := os.OpenFile(c.Out+suffix, os.O_WRONLY|os.O_CREATE|os.O_APPEND, 0o644)
		if e != nil {
			err = e
		}
		return f
	}
	c.journal, c.res, c.nt = open(".journal"), open(".res"), open(".nt")
	if err != nil {
		fmt.Fprintln(os.Stderr, err)
		os.Exit(2)
	}
	c.counters = map[string]int64{}
	c.lists = map[string]map[string]int64{}
	c.seenKeys = map[string]int{}
	c.cur = -1
	c.cpuBudget = 30
	c.memBudget = 3 << 30
	debug.SetTraceback("all")
	go c.watchdog()
	f(&c)
	c.checkpoint()
	fmt.Fprintf(c.journal, "DONE\n")
}
