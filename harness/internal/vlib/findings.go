package vlib

import (
	"bufio"
	"os"
	"strings"
)

// Finding is one "finding:" line of known_findings.txt:
//
//	finding: property=C01 key=<key> :: <what fails>
//
// "fixed:" lines are documentation only and suppress nothing. The file is never written at run time.
type Finding struct {
	Prop, Key, Desc string
}

type Findings []Finding

func LoadFindings(path, prop string) Findings {
	f, err := os.Open(path)
	if err != nil {
		return nil
	}
	defer f.Close()
	var out Findings
	sc := bufio.NewScanner(f)
	for sc.Scan() {
		l := strings.TrimSpace(sc.Text())
		if !strings.HasPrefix(l, "finding:") {
			continue
		}
		l = strings.TrimSpace(strings.TrimPrefix(l, "finding:"))
		desc := ""
		if i := strings.Index(l, "::"); i >= 0 {
			desc = strings.TrimSpace(l[i+2:])
			l = l[:i]
		}
		var fd Finding
		fd.Desc = desc
		for _, w := range strings.Fields(l) {
			if strings.HasPrefix(w, "property=") {
				fd.Prop = strings.TrimPrefix(w, "property=")
			}
			if strings.HasPrefix(w, "key=") {
				fd.Key = strings.TrimPrefix(w, "key=")
			}
		}
		if fd.Prop == prop && fd.Key != "" {
			out = append(out, fd)
		}
	}
	return out
}

// Match returns the listed finding with exactly this key (a trailing '*' in the listed key matches any suffix).
func (fs Findings) Match(key string) *Finding {
	for i := range fs {
		k := fs[i].Key
		if k == key || (strings.HasSuffix(k, "*") && strings.HasPrefix(key, strings.TrimSuffix(k, "*"))) {
			return &fs[i]
		}
	}
	return nil
}

func (fs Findings) Unseen(seen map[string]*violAgg) []Finding {
	var out []Finding
	for _, f := range fs {
		hit := false
		for k := range seen {
			if m := (Findings{f}).Match(k); m != nil {
				hit = true
				break
			}
		}
		if !hit {
			out = append(out, f)
		}
	}
	return out
}
