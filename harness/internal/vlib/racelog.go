package vlib

import (
	"encoding/json"
	"fmt"
	"os"
	"path/filepath"
	"sort"
	"strings"
)

// RaceReport is one "WARNING: DATA RACE" block reduced to what identifies it.
type RaceReport struct {
	Inner [2]string // innermost gopacket function of each access ("" when the access stack has none)
	Outer [2]string // outermost non-runtime function of each access
	Text  string
}

// ParseRaceLog splits a race detector log into reports.
func ParseRaceLog(txt string) []RaceReport {
	var out []RaceReport
	blocks := strings.Split(txt, "WARNING: DATA RACE")
	for _, blk := range blocks[1:] {
		if i := strings.Index(blk, "=================="); i >= 0 {
			blk = blk[:i]
		}
		var rr RaceReport
		rr.Text = "WARNING: DATA RACE" + blk
		lines := strings.Split(blk, "\n")
		acc := -1
		for i := 0; i < len(lines); i++ {
			l := lines[i]
			tl := strings.TrimSpace(l)
			lower := strings.ToLower(tl)
			if (strings.HasPrefix(lower, "write at") || strings.HasPrefix(lower, "read at") || strings.HasPrefix(lower, "previous write at") ||
				strings.HasPrefix(lower, "previous read at") || strings.HasPrefix(lower, "atomic") || strings.HasPrefix(lower, "previous atomic")) && strings.Contains(lower, " by ") {
				acc++
				if acc > 1 {
					break
				}
				continue
			}
			if strings.HasPrefix(tl, "Goroutine ") {
				break
			}
			if acc < 0 || acc > 1 || tl == "" {
				continue
			}
			if strings.HasPrefix(l, "  ") && !strings.HasPrefix(l, "      ") {
				fn := tl
				if j := strings.LastIndexByte(fn, '('); j > 0 {
					fn = fn[:j]
				}
				if strings.HasPrefix(fn, repoMod) && rr.Inner[acc] == "" {
					rr.Inner[acc] = shortFunc(fn)
				}
				if !strings.HasPrefix(fn, "runtime.") {
					rr.Outer[acc] = fn
				}
			}
		}
		out = append(out, rr)
	}
	return out
}

func (r RaceReport) Key() string {
	p := []string{r.Inner[0], r.Inner[1]}
	for i := range p {
		if p[i] == "" {
			p[i] = "caller"
		}
	}
	sort.Strings(p)
	return "race:" + p[0] + "|" + p[1]
}

func collectRaces(out, prop string, ph Phase, tier string, seed uint64, b, n int, a *agg) {
	files, _ := filepath.Glob(out + ".race.*")
	for _, f := range files {
		txt, err := os.ReadFile(f)
		if err != nil {
			continue
		}
		for _, rr := range ParseRaceLog(string(txt)) {
			a.mu.Lock()
			a.raceBlock++
			a.counters["race_reports"]++
			a.mu.Unlock()
			if rr.Inner[0] == "" && rr.Inner[1] == "" {
				a.mu.Lock()
				a.counters["harness_race"]++
				if len(a.inconcl) < 50 {
					a.inconcl = append(a.inconcl, "race report without any gopacket frame, see "+f)
				}
				a.mu.Unlock()
				continue
			}
			key := rr.Key()
			rp := ReplayPath(prop, key, b, -1)
			if _, err := os.Stat(rp); err != nil {
				os.MkdirAll(filepath.Dir(rp), 0o755)
				r := Replay{Prop: prop, Phase: ph.Name, Tier: tier, Seed: seed, Batch: b, NBatch: n, Case: -1, Key: key,
					Desc: "data race reported by the Go race detector", Detail: map[string]any{"report": rr.Text, "log": f},
					How: fmt.Sprintf("/verif/run %s %s (race reports are schedule dependent; rerun the phase)", prop, tier)}
				jb, _ := json.MarshalIndent(r, "", " ")
				os.WriteFile(rp, jb, 0o644)
			}
			a.addViol(key, "data race: "+rr.Inner[0]+" vs "+rr.Inner[1], rp, 1)
		}
	}
}
