package asm

import (
	"fmt"
	"sort"
	"strings"
	"time"

	"github.com/anishathalye/porcupine"
)

// LiveEv is one stream callback: data handed to stream S, or completion of S, with the interval during which the
// callback ran (any monotonic clock; for a totally ordered log use consecutive integers).
type LiveEv struct {
	Key    [3]int // connection key the stream was created for
	Stream int
	Kind   byte // 'd' data, 'c' completion
	T0, T1 int64
}

// CheckSingleLiveStream decides, with porcupine, whether the callbacks observed for each connection key can be
// explained by a pool that holds at most one live entry per key: data only goes to the live stream (the first data
// makes a stream live), a completion ends it, and nothing follows a completion on the same stream. Callbacks whose
// intervals overlap may be ordered either way; those that do not overlap must be explained in real-time order.
// It returns ("", "") when linearizable, a key/description when not, and ("unknown", ...) on timeout.
func CheckSingleLiveStream(evs []LiveEv, timeout time.Duration) (string, string) {
	if len(evs) == 0 {
		return "", ""
	}
	ops := make([]porcupine.Operation, 0, len(evs))
	for i, e := range evs {
		t1 := e.T1
		if t1 < e.T0 {
			t1 = e.T0
		}
		ops = append(ops, porcupine.Operation{ClientId: i % 64, Input: e, Call: e.T0, Output: 0, Return: t1})
	}
	model := porcupine.Model{
		Partition: func(h []porcupine.Operation) [][]porcupine.Operation {
			m := map[[3]int][]porcupine.Operation{}
			var keys [][3]int
			for _, o := range h {
				k := o.Input.(LiveEv).Key
				if _, ok := m[k]; !ok {
					keys = append(keys, k)
				}
				m[k] = append(m[k], o)
			}
			sort.Slice(keys, func(i, j int) bool { return fmt.Sprint(keys[i]) < fmt.Sprint(keys[j]) })
			var out [][]porcupine.Operation
			for _, k := range keys {
				out = append(out, m[k])
			}
			return out
		},
		// state: id of the live stream (0 none) and whether the last completed stream may still...: just the id
		Init: func() any { return 0 },
		Step: func(state, in, out any) (bool, any) {
			live := state.(int)
			e := in.(LiveEv)
			switch e.Kind {
			case 'd':
				if live == e.Stream {
					return true, live
				}
				if live == 0 {
					return true, e.Stream
				}
				return false, state
			case 'c':
				if live == e.Stream || live == 0 {
					return true, 0
				}
				return false, state
			}
			return true, live
		},
		DescribeOperation: func(in, out any) string {
			e := in.(LiveEv)
			return fmt.Sprintf("%c%d", e.Kind, e.Stream)
		},
	}
	res, _ := porcupine.CheckOperationsVerbose(model, ops, timeout)
	switch res {
	case porcupine.Ok:
		return "", ""
	case porcupine.Unknown:
		return "unknown", "porcupine timed out"
	}
	// find a small witness: the first key whose sub-history is illegal on its own
	by := map[[3]int][]LiveEv{}
	for _, e := range evs {
		by[e.Key] = append(by[e.Key], e)
	}
	for k, l := range by {
		var sub []porcupine.Operation
		for i, e := range l {
			t1 := e.T1
			if t1 < e.T0 {
				t1 = e.T0
			}
			sub = append(sub, porcupine.Operation{ClientId: i % 64, Input: e, Call: e.T0, Output: 0, Return: t1})
		}
		if r, _ := porcupine.CheckOperationsVerbose(model, sub, timeout); r == porcupine.Illegal {
			sort.Slice(l, func(i, j int) bool { return l[i].T0 < l[j].T0 })
			var sb strings.Builder
			for i, e := range l {
				if i > 60 {
					sb.WriteString(" ...")
					break
				}
				fmt.Fprintf(&sb, " %c%d[%d,%d]", e.Kind, e.Stream, e.T0, e.T1)
			}
			return "two-live-streams-for-one-connection", fmt.Sprintf("key %v: no order of the (overlapping) stream callbacks is explained by a single live entry per connection:%s", k, sb.String())
		}
	}
	return "two-live-streams-for-one-connection", "history not linearizable against the single-live-entry model"
}
