package asm

import (
	"bytes"
	"fmt"
)

// Feed records that bytes [Off,Off+N) of a direction's stream were handed to the assembler in API call Call.
type Feed struct {
	Call, Off, N int
	SYN          bool
}

// FeedLog is the per (connection, direction) list of feeds, in call order.
type FeedLog struct {
	Feeds []Feed
}

func (l *FeedLog) Add(call, off, n int, syn bool) { l.Feeds = append(l.Feeds, Feed{call, off, n, syn}) }

// fedIn reports whether stream offset off was fed in a call within [from, to].
func (l *FeedLog) fedIn(off, from, to int) bool {
	for _, f := range l.Feeds {
		if f.Call >= from && f.Call <= to && f.N > 0 && off >= f.Off && off < f.Off+f.N {
			return true
		}
	}
	return false
}

// firstSince returns the first feed at or after call from.
func (l *FeedLog) firstSince(from int) *Feed {
	for i := range l.Feeds {
		if l.Feeds[i].Call >= from {
			return &l.Feeds[i]
		}
	}
	return nil
}

func (l *FeedLog) maxEnd(from, to int) int {
	m := 0
	for _, f := range l.Feeds {
		if f.N > 0 && f.Call >= from && f.Call <= to && f.Off+f.N > m {
			m = f.Off + f.N
		}
	}
	return m
}

// CallCtx is what the oracle needs to know about the API call during which a delivery happens.
type CallCtx struct {
	Call            int
	Flush           bool // FlushOlderThan / FlushWithOptions / FlushAll
	LimitConfigured bool // the assembler has a page limit
	PerConn, Total  int  // the configured limits (0 = none)
}

// pagesBound is an upper bound of the pages this direction can have queued in call `to`: every segment fed since `from`
// that reaches beyond stream offset pos, at ceil(len/1900) pages (an empty segment takes one). The assemblers queue at
// most that (overlaps are trimmed, never expanded).
func (l *FeedLog) pagesBound(from, to, pos int) int {
	n := 0
	for _, f := range l.Feeds {
		if f.Call >= from && f.Call <= to && (f.Off+f.N > pos || f.N == 0) {
			n += max(1, (f.N+1899)/1900)
		}
	}
	return n
}

// DirChecker is the cursor model of one direction of one stream object.
type DirChecker struct {
	S       []byte
	Log     *FeedLog
	Created int // call in which the stream object was created

	pos          int
	n            int // deliveries seen
	Started      bool
	Unknown      bool
	kept         []byte
	keptSet      bool
	EndCall      int // call in which the stream object completed (-1: not yet)
	Bad          bool
	SkipBytes    int
	Delivered    int
	SawSkip      bool
	SawKept      bool
	LimitSkips   int
	SawEnd       bool
	EndDelivered int // call of the first delivery carrying the End flag
}

func NewDirChecker(S []byte, log *FeedLog, created int) *DirChecker {
	return &DirChecker{S: S, Log: log, Created: created, EndCall: -1}
}

// Deliver checks one hand-over. all = the bytes presented (for reassembly: saved bytes followed by new bytes; for
// tcpassembly saved = 0). It returns a non-empty key on the first violation.
func (d *DirChecker) Deliver(cc CallCtx, skip int, start, end bool, saved int, all []byte, isReasm bool) (key, desc string) {
	if d.Bad {
		return
	}
	defer func() {
		if key != "" {
			d.Bad = true
		}
	}()
	d.n++
	if d.n == 1 {
		first := d.Log.firstSince(d.Created)
		switch {
		case start:
			d.Started = true
		case skip < 0:
			d.Unknown = true
		default:
			d.Unknown = true
		}
		if first != nil && first.SYN && !start {
			return "start-not-reported", "the first segment fed to this stream was the SYN, but the first delivery does not have Start set"
		}
		if start && skip != 0 {
			return "skip-on-start", fmt.Sprintf("first delivery has Start and skip=%d", skip)
		}
	}
	if end && !d.SawEnd {
		d.EndDelivered = cc.Call
		d.SawEnd = true //: neither property says what may follow an End flag, only what may follow completion
	}
	if !d.Started {
		return
	}
	if saved < 0 || saved > len(all) {
		return "saved-out-of-range", fmt.Sprintf("saved=%d with %d bytes available", saved, len(all))
	}
	if skip < 0 {
		return "unknown-skip-on-started-stream", fmt.Sprintf("skip=%d on a direction whose start was seen", skip)
	}
	if skip > 0 {
		d.SawSkip = true
		if !cc.Flush && !cc.LimitConfigured {
			return "gap-released-without-flush-or-limit", fmt.Sprintf("skip=%d announced inside an Assemble call with no page limit configured", skip)
		}
		if !cc.Flush {
			d.LimitSkips++
			// "only when a flush or buffer limit forces data out": with only a per-connection limit configured, the
			// limit can only have been reached if this direction could have that many pages queued at all
			if cc.PerConn > 0 && cc.Total == 0 && !isReasm { // classic assembler only: its queue is exactly the fed, undelivered segments
				b := d.Log.pagesBound(d.Created, cc.Call, d.pos)
				if isReasm && d.keptSet {
					b += (len(d.kept)+1899)/1900 + 1 // bytes kept for the stream are held in pages of the same half
				}
				if b < cc.PerConn {
					return "gap-released-below-the-limit", fmt.Sprintf("skip=%d announced inside an Assemble call although this direction can hold at most %d queued pages, limit %d", skip, b, cc.PerConn)
				}
			}
		}
		if d.pos+skip > len(d.S) {
			return "skip-beyond-stream", fmt.Sprintf("skip=%d at stream offset %d, stream has %d bytes", skip, d.pos, len(d.S))
		}
		for off := d.pos; off < d.pos+skip; off++ {
			if d.Log.fedIn(off, d.Created, cc.Call) {
				return "skipped-bytes-that-had-arrived", fmt.Sprintf("skip=%d at stream offset %d passes over offset %d which had been fed", skip, d.pos, off)
			}
		}
		d.pos += skip
		d.SkipBytes += skip
	}
	if isReasm {
		want := 0
		if d.keptSet {
			want = len(d.kept)
		}
		switch {
		case saved == want && bytes.Equal(all[:saved], d.kept[:want]):
			if saved > 0 {
				d.SawKept = true
			}
		case skip != 0 && saved == 0:
			// kept bytes cannot be "directly in front of the next new data" across a gap: dropping them is documented
		case saved == want:
			return "kept-bytes-altered", fmt.Sprintf("the %d kept bytes were presented again with different content", saved)
		default:
			return "kept-bytes-not-represented", fmt.Sprintf("stream kept %d bytes, next delivery presents saved=%d (skip=%d)", want, saved, skip)
		}
	} else if saved != 0 {
		return "saved-out-of-range", "saved != 0 for the classic assembler"
	}
	nb := all[saved:]
	if d.pos+len(nb) > len(d.S) || !bytes.Equal(nb, d.S[d.pos:d.pos+len(nb)]) {
		what := "altered or invented"
		if i := bytes.Index(d.S, nb); i >= 0 && len(nb) > 3 {
			if i < d.pos {
				what = fmt.Sprintf("a repeat of stream offset %d (duplicated / reordered)", i)
			} else {
				what = fmt.Sprintf("bytes from stream offset %d (a gap of %d passed over silently)", i, i-d.pos)
			}
		}
		return "delivered-bytes-differ", fmt.Sprintf("delivery %d: %d new bytes at stream offset %d are %s", d.n, len(nb), d.pos, what)
	}
	d.pos += len(nb)
	d.Delivered += len(nb)
	d.kept, d.keptSet = nil, false
	return
}

// Keep records that the stream asked to keep all[k:].
func (d *DirChecker) Keep(all []byte, k int) {
	if k < 0 || k > len(all) {
		return
	}
	d.kept = append([]byte{}, all[k:]...)
	d.keptSet = true
}

// Complete records the completion of the stream object.
func (d *DirChecker) Complete(call int) {
	if d.EndCall < 0 {
		d.EndCall = call
	}
}

// Final is evaluated after the closing FlushAll: everything fed while the direction was open must have been
// delivered or passed over with an announced skip.
func (d *DirChecker) Final() (key, desc string) {
	if d.Bad || !d.Started {
		return
	}
	if d.EndCall < 0 {
		return "direction-never-ended", "after FlushAll the direction was neither ended nor completed"
	}
	// the direction stops taking data when its End (FIN/RST) has been handed over, at the latest when the stream completes
	closeCall := d.EndCall
	if d.SawEnd && d.EndDelivered < closeCall {
		closeCall = d.EndDelivered
	}
	if m := d.Log.maxEnd(d.Created, closeCall); d.pos < m {
		return "fed-bytes-never-delivered", fmt.Sprintf("bytes up to stream offset %d were fed while the direction was open, delivery stopped at %d", m, d.pos)
	}
	return
}

func (d *DirChecker) Pos() int { return d.pos }
