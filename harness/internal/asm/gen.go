// Package asm holds what the two TCP assembler children share: the history generator and the cursor oracle.
// It imports nothing from gopacket.
package asm

import (
	"fmt"

	"verif/harness/internal/vlib"
)

// Seg is one TCP segment of a generated history.
type Seg struct {
	Conn, Dir     int
	Seq           uint32
	Data          []byte
	SYN, FIN, RST bool
	Off           int // offset of Data[0] in the direction's byte stream
}

type EvKind int

const (
	EvSeg EvKind = iota
	EvFlushOlder
	EvFlushAll
)

// Ev is one API call of a history. TS is the logical time (seconds) of the call.
type Ev struct {
	Kind EvKind
	Seg  Seg
	Cut  int64 // EvFlushOlder: cut-off logical time
	TS   int64
}

// Conn describes one generated connection.
type Conn struct {
	SrcIP, DstIP     [4]byte
	SrcPort, DstPort uint16
	ISN              [2]uint32
	S                [2][]byte
	Dirs             int // 1 or 2 directions carry data
}

// Params shape a history.
type Params struct {
	Conns       int
	MaxStream   int
	Flushes     bool // interleave FlushOlderThan calls
	MidFlushAll bool // FlushAll in the middle (C11)
	NoSYN       int  // 1-in-N directions are fed without their SYN (0 = never)
	JitterTS    bool
	Both        bool // both directions carry data
	CloseProb   int  // percent of directions that end with FIN/RST
	SmallSegs   bool
	MaxSegs     int
	ReopenAfter bool
	BigSegs     bool // multi-page segments (2..5 pages)
	Stall       int  // 1-in-N directions deliver their first data segment last, so everything else queues (0 = never)
	MixSizes    bool // mix 1-page and multi-page segments in one direction
	EarlyFIN    int  // 1-in-N directions carry an extra FIN/RST on a mid-stream segment (bogus: data follows it); 0 = never
}

// History is a generated sequence of API calls plus the assembler configuration.
type History struct {
	Conns        []Conn
	Evs          []Ev
	PerConnLimit int
	TotalLimit   int
	Desc         []string // features present: "wrap", "overlap", "ooo", ...
	Features     map[string]bool
}

var segSizes = []int{1, 2, 7, 100, 1460, 1900, 1901, 4000, 9000}

// wrapISN picks an ISN so that the wrap at 2^32 falls at a PRNG-chosen alignment inside (or right around) the stream.
func wrapISN(r *vlib.Rand, n int) uint32 {
	if r.Chance(1, 4) {
		// a mark of the sequence space lies inside the stream: the quarter marks (where implementations switch between
		// their "wrapped" and "not wrapped" comparison), the half mark, the full wrap
		mark := []uint64{1 << 30, 1 << 31, 3 << 30, 1 << 32}[r.Intn(4)]
		return uint32(mark - uint64(r.Range(1, n+3)))
	}
	switch r.Intn(8) {
	case 0:
		return 0
	case 1:
		return 1
	case 2:
		return uint32(1<<31) - uint32(r.Intn(4))
	case 3:
		return uint32(1<<31) + uint32(r.Intn(4))
	case 4, 5:
		// 2^32 - n - k .. 2^32 - 1: the wrap lies inside the stream
		return uint32(uint64(1<<32) - uint64(r.Range(1, n+3)))
	case 6:
		return 0xffffffff - uint32(r.Intn(4))
	}
	return r.U32()
}

// GenDir produces the segments of one direction (in sequence order), covering S exactly once, then the extra
// retransmissions; the caller permutes.
func genDir(r *vlib.Rand, h *History, ci, dir int, p Params, withSYN bool, closeKind int) (orig []Seg, extra []Seg) {
	c := &h.Conns[ci]
	S := c.S[dir]
	isn := c.ISN[dir]
	n := len(S)
	if uint64(isn)+uint64(n)+2 > 1<<32 {
		h.Features["wrap"] = true
	}
	if withSYN {
		orig = append(orig, Seg{Conn: ci, Dir: dir, Seq: isn, SYN: true, Off: 0})
	}
	style := r.Intn(4)
	for a := 0; a < n; {
		var sz int
		switch {
		case p.SmallSegs:
			sz = r.Range(1, 8)
		case p.MixSizes:
			sz = []int{10, 100, 1000, 1900, 1901, 3800, 5701, 9000, 50, 700}[r.Intn(10)]
		case p.BigSegs:
			sz = []int{1901, 3800, 4000, 5701, 9000}[r.Intn(5)]
		case style == 0:
			sz = segSizes[r.Intn(len(segSizes))]
		case style == 1:
			sz = r.Range(1, 40)
		case style == 2:
			sz = r.Range(1000, 2500)
		default:
			sz = r.Range(1, 300)
		}
		if p.MaxSegs > 0 && len(orig) >= p.MaxSegs-1 {
			sz = n - a
		}
		if a+sz > n {
			sz = n - a
		}
		orig = append(orig, Seg{Conn: ci, Dir: dir, Seq: isn + 1 + uint32(a), Data: S[a : a+sz], Off: a})
		a += sz
	}
	switch closeKind {
	case 1: // FIN on the last data segment or as an empty segment
		if r.Bool() && len(orig) > 0 && len(orig[len(orig)-1].Data) > 0 {
			orig[len(orig)-1].FIN = true
		} else {
			orig = append(orig, Seg{Conn: ci, Dir: dir, Seq: isn + 1 + uint32(n), FIN: true, Off: n})
		}
		h.Features["fin"] = true
	case 2:
		orig = append(orig, Seg{Conn: ci, Dir: dir, Seq: isn + 1 + uint32(n), RST: true, Off: n})
		h.Features["rst"] = true
	}
	if p.EarlyFIN > 0 && r.Chance(1, p.EarlyFIN) && len(orig) > 3 {
		// a FIN or RST in the middle of the sequence space: whatever follows it is data past the end of the stream
		k := r.Range(1, len(orig)-2)
		if r.Bool() {
			orig[k].FIN = true
		} else {
			orig[k].RST = true
		}
		h.Features["earlyfin"] = true
	}
	// retransmissions: exact duplicates, supersets, subsets, partial overlaps — always carrying consistent data
	nre := 0
	if n > 0 && r.Chance(2, 3) {
		nre = r.Range(1, 4)
	}
	for k := 0; k < nre; k++ {
		var a, b int
		if r.Chance(1, 3) && len(orig) > 1 {
			s := orig[r.Intn(len(orig))]
			if len(s.Data) == 0 {
				continue
			}
			a, b = s.Off, s.Off+len(s.Data) // exact duplicate
		} else {
			a = r.Intn(n)
			b = a + r.Range(1, 3000)
			if b > n {
				b = n
			}
		}
		if b <= a {
			continue
		}
		extra = append(extra, Seg{Conn: ci, Dir: dir, Seq: isn + 1 + uint32(a), Data: S[a:b], Off: a})
		h.Features["overlap"] = true
	}
	if withSYN && r.Chance(1, 8) {
		extra = append(extra, Seg{Conn: ci, Dir: dir, Seq: isn, SYN: true, Off: 0}) // duplicated SYN
		h.Features["dupsyn"] = true
	}
	return
}

// order arranges the segments of one direction into an arrival order.
func order(r *vlib.Rand, h *History, orig, extra []Seg, stall bool) []Seg {
	segs := append([]Seg{}, orig...)
	switch r.Intn(6) {
	case 0: // in order
	case 1: // fully reversed
		for a, b := 0, len(segs)-1; a < b; a, b = a+1, b-1 {
			segs[a], segs[b] = segs[b], segs[a]
		}
	case 2, 3: // k-local shuffle
		k := r.Range(2, 5)
		for i := 0; i+1 < len(segs); i++ {
			j := i + r.Intn(k)
			if j < len(segs) {
				segs[i], segs[j] = segs[j], segs[i]
			}
		}
	case 4: // random permutation
		p := r.Perm(len(segs))
		s2 := make([]Seg, len(segs))
		for a, b := range p {
			s2[a] = segs[b]
		}
		segs = s2
	case 5: // SYN late: move the first segment somewhere later
		if len(segs) > 2 {
			j := r.Range(1, len(segs)-1)
			s := segs[0]
			copy(segs, segs[1:j+1])
			segs[j] = s
		}
	}
	if stall {
		// hold back the first data segment until the end: every other segment has to be queued
		for i, s := range segs {
			if len(s.Data) > 0 && s.Off == 0 {
				segs = append(append(segs[:i:i], segs[i+1:]...), s)
				h.Features["stall"] = true
				break
			}
		}
	}
	for _, e := range extra {
		j := r.Intn(len(segs) + 1)
		segs = append(segs[:j], append([]Seg{e}, segs[j:]...)...)
	}
	for i := 1; i < len(segs); i++ {
		if segs[i].Off < segs[i-1].Off {
			h.Features["ooo"] = true
		}
	}
	return segs
}

// Gen builds a history.
func Gen(r *vlib.Rand, p Params) *History {
	h := &History{Features: map[string]bool{}}
	if p.Conns < 1 {
		p.Conns = 1
	}
	var perDir [][]Seg
	for ci := 0; ci < p.Conns; ci++ {
		c := Conn{SrcPort: uint16(1024 + ci), DstPort: uint16(80 + r.Intn(3))}
		copy(c.SrcIP[:], []byte{10, 0, byte(ci >> 8), byte(ci)})
		copy(c.DstIP[:], []byte{10, 1, 0, byte(r.Intn(4))})
		c.Dirs = 1
		if p.Both && r.Bool() {
			c.Dirs = 2
		}
		for d := 0; d < c.Dirs; d++ {
			n := r.Range(1, p.MaxStream)
			if r.Chance(1, 10) {
				n = r.Intn(3)
			}
			c.S[d] = r.Bytes(n)
			c.ISN[d] = wrapISN(r, n)
		}
		h.Conns = append(h.Conns, c)
		for d := 0; d < c.Dirs; d++ {
			withSYN := !(p.NoSYN > 0 && r.Chance(1, p.NoSYN))
			if !withSYN {
				h.Features["nosyn"] = true
			}
			ck := 0
			if r.Intn(100) < p.CloseProb {
				ck = 1 + r.Intn(2)
			}
			o, e := genDir(r, h, ci, d, p, withSYN, ck)
			perDir = append(perDir, order(r, h, o, e, p.Stall > 0 && r.Chance(1, p.Stall)))
		}
	}
	// merge the per-direction arrival orders, preserving each
	idx := make([]int, len(perDir))
	left := 0
	for _, s := range perDir {
		left += len(s)
	}
	ts := int64(1000)
	for left > 0 {
		k := r.Intn(len(perDir))
		if idx[k] >= len(perDir[k]) {
			continue
		}
		ts += int64(r.Range(0, 3))
		t := ts
		if p.JitterTS && r.Chance(1, 5) {
			t -= int64(r.Range(1, 10))
		}
		h.Evs = append(h.Evs, Ev{Kind: EvSeg, Seg: perDir[k][idx[k]], TS: t})
		idx[k]++
		left--
		if p.Flushes && r.Chance(1, 12) {
			cut := ts - int64(r.Range(-2, 20))
			h.Evs = append(h.Evs, Ev{Kind: EvFlushOlder, Cut: cut, TS: ts})
			h.Features["flusholder"] = true
		}
		if p.MidFlushAll && r.Chance(1, 60) {
			h.Evs = append(h.Evs, Ev{Kind: EvFlushAll, TS: ts})
			h.Features["midflushall"] = true
		}
	}
	h.Evs = append(h.Evs, Ev{Kind: EvFlushAll, TS: ts + 1})
	return h
}

func (h *History) String() string {
	s := fmt.Sprintf("limits per-conn=%d total=%d; ", h.PerConnLimit, h.TotalLimit)
	for i, c := range h.Conns {
		s += fmt.Sprintf("conn%d isn=%d/%d len=%d/%d; ", i, c.ISN[0], c.ISN[1], len(c.S[0]), len(c.S[1]))
	}
	for _, e := range h.Evs {
		switch e.Kind {
		case EvSeg:
			f := ""
			if e.Seg.SYN {
				f += "S"
			}
			if e.Seg.FIN {
				f += "F"
			}
			if e.Seg.RST {
				f += "R"
			}
			s += fmt.Sprintf("c%dd%d[%d,%d)%s@%d ", e.Seg.Conn, e.Seg.Dir, e.Seg.Off, e.Seg.Off+len(e.Seg.Data), f, e.TS)
		case EvFlushOlder:
			s += fmt.Sprintf("FlushOlder(%d) ", e.Cut)
		case EvFlushAll:
			s += "FlushAll "
		}
	}
	return s
}
