package asm

import (
	"encoding/binary"
	"fmt"
	"sync/atomic"
	"time"
)

// Self-describing payloads for the concurrency checks: every 8-byte record names the connection, direction,
// generation and its own index, so a stream can tell on its own (without shared monitor state, which would add
// happens-before edges and hide races) whose bytes it was handed and whether they are in order.

// Rec builds record idx of (conn, dir, gen).
func Rec(conn, dir, gen, idx int) [8]byte {
	var b [8]byte
	b[0] = byte(conn)
	b[1] = byte(dir)
	binary.BigEndian.PutUint16(b[2:], uint16(gen))
	binary.BigEndian.PutUint32(b[4:], uint32(idx))
	return b
}

// Payload builds records [from, from+n).
func Payload(conn, dir, gen, from, n int) []byte {
	out := make([]byte, 0, n*8)
	for i := 0; i < n; i++ {
		r := Rec(conn, dir, gen, from+i)
		out = append(out, r[:]...)
	}
	return out
}

// CDeliv is one hand-over as seen by a stream monitor.
type CDeliv struct {
	Dir           int
	Gen, First, N int // records [First, First+N) of generation Gen (N may be 0)
	Skip          int
	Start, End    bool
}

// StreamMon is the per-stream monitor used under concurrency. All fields except busy are only touched inside the
// stream's own callbacks (which the property says are never concurrent); busy detects when they are.
type StreamMon struct {
	ID        int
	Conn, Dir int  // Dir = -1: the stream serves both directions (reassembly)
	Gen       int  // generation (incarnation) the stream's key belongs to; -1 when the key is reused by every generation
	Relaxed   bool // key reused across incarnations: bytes of an earlier incarnation may legitimately show up late, only ownership is checked
	busy      int32
	Log       []CDeliv
	Completed int
	Callbacks int
	FirstT    time.Time
	CompleteT time.Time
	Bad       []string // violation key + "\x00" + description
	Evs       []MonEv  // every callback with its time interval (for the single-live-entry check)
	evT0      int64
	evKind    byte
	cur       [2]struct {
		gen, next int
		set       bool
	}
}

func (m *StreamMon) bad(key, desc string) {
	if len(m.Bad) < 8 {
		m.Bad = append(m.Bad, key+"\x00"+desc)
	}
}

// MonEv is one callback of a stream with the interval during which it ran (ns on the process's monotonic clock).
type MonEv struct {
	Kind   byte
	T0, T1 int64
}

var monBase = time.Now()

// Enter / Leave bracket every callback.
func (m *StreamMon) Enter() bool {
	if !atomic.CompareAndSwapInt32(&m.busy, 0, 1) {
		m.bad("overlapping-callbacks", fmt.Sprintf("stream %d: a callback started while another callback of the same stream was running", m.ID))
		return false
	}
	m.Callbacks++
	m.evT0, m.evKind = int64(time.Since(monBase)), 'd'
	if m.FirstT.IsZero() {
		m.FirstT = time.Now()
	}
	if m.Completed > 0 {
		m.bad("data-after-completion", fmt.Sprintf("stream %d: callback after ReassemblyComplete", m.ID))
	}
	return true
}

// EnterLight / LeaveLight bracket a callback that is not a delivery (reassembly's Accept): it must not overlap another
// callback of the same stream, but it may legitimately come after the stream's completion (a packet that was waiting for
// the connection while it was being closed), so only the overlap is judged. A few yields inside widen the window.
func (m *StreamMon) EnterLight() bool {
	if !atomic.CompareAndSwapInt32(&m.busy, 0, 1) {
		m.bad("overlapping-callbacks", fmt.Sprintf("stream %d: Accept ran while another callback of the same stream was running", m.ID))
		return false
	}
	return true
}

func (m *StreamMon) LeaveLight() { atomic.StoreInt32(&m.busy, 0) }

func (m *StreamMon) Leave() {
	if len(m.Evs) < 8192 {
		m.Evs = append(m.Evs, MonEv{m.evKind, m.evT0, int64(time.Since(monBase))})
	}
	atomic.StoreInt32(&m.busy, 0)
}

// Data checks one hand-over of bytes for direction dir (0/1) of this stream.
func (m *StreamMon) Data(dir int, b []byte, skip int, start, end bool) {
	d := CDeliv{Dir: dir, Skip: skip, Start: start, End: end, Gen: -1}
	if len(b)%8 != 0 {
		m.bad("delivery-not-record-aligned", fmt.Sprintf("stream %d: %d bytes delivered, not a multiple of the 8-byte record (bytes lost or duplicated inside a segment)", m.ID, len(b)))
		return
	}
	cur := &m.cur[dir&1]
	for off := 0; off < len(b); off += 8 {
		c, dd := int(b[off]), int(b[off+1])
		gen := int(binary.BigEndian.Uint16(b[off+2:]))
		idx := int(binary.BigEndian.Uint32(b[off+4:]))
		if c != m.Conn || (m.Dir >= 0 && dd != m.Dir) || (m.Dir < 0 && dd != dir) || (m.Gen >= 0 && gen != m.Gen) {
			m.bad("data-of-another-connection", fmt.Sprintf("stream %d created for conn %d dir %d was handed bytes of conn %d dir %d (gen %d record %d)", m.ID, m.Conn, m.Dir, c, dd, gen, idx))
			return
		}
		if off == 0 {
			d.Gen, d.First = gen, idx
		}
		d.N++
		if m.Relaxed {
			cur.gen, cur.next, cur.set = gen, idx+1, true
			continue
		}
		if cur.set {
			switch {
			case gen < cur.gen || (gen == cur.gen && idx < cur.next):
				m.bad("duplicate-or-reordered-delivery", fmt.Sprintf("stream %d dir %d: record gen %d #%d delivered after gen %d #%d", m.ID, dir, gen, idx, cur.gen, cur.next-1))
				return
			case gen == cur.gen && idx > cur.next && !(off == 0 && skip != 0):
				m.bad("silent-gap", fmt.Sprintf("stream %d dir %d: record #%d follows #%d of gen %d without an announced skip", m.ID, dir, idx, cur.next-1, gen))
				return
			case gen == cur.gen && off == 0 && skip > 0 && (idx-cur.next)*8 != skip:
				m.bad("skip-amount-wrong", fmt.Sprintf("stream %d dir %d: skip=%d announced, %d bytes are missing", m.ID, dir, skip, (idx-cur.next)*8))
				return
			}
		} else if start && idx != 0 {
			m.bad("start-not-at-first-byte", fmt.Sprintf("stream %d dir %d: delivery with Start begins at record #%d", m.ID, dir, idx))
			return
		}
		cur.gen, cur.next, cur.set = gen, idx+1, true
	}
	if len(m.Log) < 4096 {
		m.Log = append(m.Log, d)
	}
}

// Complete records the completion callback.
func (m *StreamMon) Complete() {
	m.evKind = 'c'
	m.Completed++
	m.CompleteT = time.Now()
	if m.Completed > 1 {
		m.bad("completed-twice", fmt.Sprintf("stream %d: ReassemblyComplete called %d times", m.ID, m.Completed))
	}
}
