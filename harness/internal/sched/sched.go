// Package sched is the yield-point controller of C12's systematic mode: it runs the goroutines of a scenario one at a
// time, each up to its next yield point (a place where it holds no lock) or to completion, so a schedule is a
// finite sequence of goroutine ids and can be enumerated or sampled deterministically.
package sched

import (
	"fmt"
	"runtime"
	"strings"
	"time"
)

type event struct {
	g     int
	point string
	done  bool
}

// Ctl controls one execution of a scenario.
type Ctl struct {
	resume  []chan struct{}
	toCtl   chan event
	current int
	alive   []bool
	parked  []string // where each goroutine is parked ("" = not started / finished)
	Steps   int      // logical clock: incremented at every scheduling decision
	Trace   []int    // the schedule actually taken
	Points  []string
	started []bool
}

// New creates a controller for n goroutines.
func New(n int) *Ctl {
	c := &Ctl{toCtl: make(chan event), alive: make([]bool, n), parked: make([]string, n), started: make([]bool, n)}
	for i := 0; i < n; i++ {
		c.resume = append(c.resume, make(chan struct{}))
		c.alive[i] = true
	}
	return c
}

// Yield is what the package's yield hook calls. Only the running goroutine can call it.
func (c *Ctl) Yield(point string) {
	g := c.current
	c.toCtl <- event{g: g, point: point}
	<-c.resume[g]
}

// Current returns the id of the goroutine that is running now (valid inside callbacks).
func (c *Ctl) Current() int { return c.current }

// Go starts goroutine g; it begins parked.
func (c *Ctl) Go(g int, fn func()) {
	go func() {
		<-c.resume[g]
		fn()
		c.toCtl <- event{g: g, done: true}
	}()
}

// Chooser picks the next goroutine among the runnable ones; step is the decision index.
type Chooser func(step int, runnable []int, last int) int

// Run executes the scenario to completion under the chooser. It returns "" or a description of why it could not
// (a goroutine that neither yields nor finishes: with all others parked at lock-free points that is a deadlock).
func (c *Ctl) Run(choose Chooser) (deadlock string) {
	last := -1
	for {
		var runnable []int
		for g, a := range c.alive {
			if a {
				runnable = append(runnable, g)
			}
		}
		if len(runnable) == 0 {
			return ""
		}
		g := choose(c.Steps, runnable, last)
		c.Steps++
		c.Trace = append(c.Trace, g)
		c.current = g
		c.resume[g] <- struct{}{}
		wait := 2 * time.Second
	waitloop:
		for {
			select {
			case ev := <-c.toCtl:
				if ev.done {
					c.alive[ev.g] = false
					c.parked[ev.g] = ""
				} else {
					c.parked[ev.g] = ev.point
					c.Points = append(c.Points, ev.point)
				}
				break waitloop
			case <-time.After(wait):
				// the timer only says when to look: every other scenario goroutine is parked at a point where it holds
				// no lock, so if the runner is blocked in a lock/channel operation nobody can ever release it
				buf := make([]byte, 1<<20)
				snap := string(buf[:runtime.Stack(buf, true)])
				blocked := false
				for _, gs := range strings.Split(snap, "\n\n") {
					if strings.Contains(gs, "gopacket") && (strings.Contains(gs, "[sync.Mutex.Lock") || strings.Contains(gs, "[sync.RWMutex") || strings.Contains(gs, "[semacquire")) {
						blocked = true
					}
				}
				if blocked {
					return fmt.Sprintf("goroutine %d is blocked on a lock while every other goroutine is parked at a lock-free yield point (schedule %v)\n%s", g, c.Trace, snap[:min(len(snap), 8000)])
				}
				wait *= 2
				if wait > 30*time.Second {
					return "INCONCLUSIVE: runner neither yielded nor finished within the backstop, and the snapshot does not show a lock wait"
				}
			}
		}
		last = g
	}
}
