// Package gen holds types_gen.go, written by cmd/vgen from the repository under test before every build (see /verif/run):
// one constructor per exported struct type of packages gopacket and gopacket/layers.
package gen
