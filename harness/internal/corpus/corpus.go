// Package corpus is the input engine of the decoder-facing checks: it enumerates the registered layer types, harvests
// seed inputs per layer type from the repository's own fixtures (byte literals of the test files and the packets of the
// capture files under /repo) and from packets built byte by byte, and mutates them.
package corpus

import (
	"bytes"
	"encoding/binary"
	"encoding/hex"
	"go/ast"
	"go/parser"
	"go/token"
	"os"
	"path/filepath"
	"sort"
	"strconv"
	"strings"
	"unsafe"

	"github.com/gopacket/gopacket"
	"github.com/gopacket/gopacket/layers"
	"github.com/gopacket/gopacket/pcapgo"

	"verif/harness/internal/pk"
	"verif/harness/internal/sig"
	"verif/harness/internal/vlib"
)

// Corpus holds seeds per layer type.
type Corpus struct {
	Types []gopacket.LayerType            // registered layer types with a decoder, sorted
	Seeds map[gopacket.LayerType][][]byte // valid-looking inputs for that type
	All   [][]byte                        // every whole fixture packet
	Stats map[string]int
}

// RegisteredTypes lists every layer type that has a name and a decoder.
func RegisteredTypes() []gopacket.LayerType {
	var ts []gopacket.LayerType
	seen := map[gopacket.LayerType]bool{}
	for i := 0; i < 2000; i++ {
		t := gopacket.LayerType(i)
		if t.String() != strconv.Itoa(i) && !seen[t] && !strings.HasPrefix(t.String(), "Verif") { // "Verif…" = registered by the harness itself
			seen[t] = true
			ts = append(ts, t)
		}
	}
	sort.Slice(ts, func(a, b int) bool { return ts[a] < ts[b] })
	return ts
}

func literalBytes(cl *ast.CompositeLit) ([]byte, bool) {
	at, ok := cl.Type.(*ast.ArrayType)
	if !ok {
		return nil, false
	}
	id, ok := at.Elt.(*ast.Ident)
	if !ok || (id.Name != "byte" && id.Name != "uint8") {
		return nil, false
	}
	out := make([]byte, 0, len(cl.Elts))
	for _, e := range cl.Elts {
		bl, ok := e.(*ast.BasicLit)
		if !ok || (bl.Kind != token.INT && bl.Kind != token.CHAR) {
			return nil, false
		}
		if bl.Kind == token.CHAR {
			s, err := strconv.Unquote(bl.Value)
			if err != nil || len(s) != 1 {
				return nil, false
			}
			out = append(out, s[0])
			continue
		}
		v, err := strconv.ParseUint(bl.Value, 0, 64)
		if err != nil || v > 255 {
			return nil, false
		}
		out = append(out, byte(v))
	}
	return out, true
}

// harvestLiterals extracts []byte{...} literals from Go test files.
func harvestLiterals(root string) [][]byte {
	var out [][]byte
	fset := token.NewFileSet()
	filepath.Walk(root, func(p string, info os.FileInfo, err error) error {
		if err != nil {
			return nil
		}
		if info.IsDir() {
			if n := info.Name(); n == ".git" || n == "examples" || n == "vendor" {
				return filepath.SkipDir
			}
			return nil
		}
		if !strings.HasSuffix(p, "_test.go") {
			return nil
		}
		f, err := parser.ParseFile(fset, p, nil, parser.SkipObjectResolution)
		if err != nil {
			return nil
		}
		ast.Inspect(f, func(n ast.Node) bool {
			if cl, ok := n.(*ast.CompositeLit); ok {
				if b, ok := literalBytes(cl); ok && len(b) >= 4 && len(b) <= 70000 {
					out = append(out, b)
				}
			}
			// fixtures written as hex strings (hex.DecodeString("0a0b..."))
			if bl, ok := n.(*ast.BasicLit); ok && bl.Kind == token.STRING {
				if str, err := strconv.Unquote(bl.Value); err == nil && len(str) >= 8 && len(str)%2 == 0 && len(str) <= 140000 {
					if b, err := hex.DecodeString(str); err == nil {
						out = append(out, b)
					}
				}
			}
			return true
		})
		return nil
	})
	return out
}

// harvestCaptures reads the packets of the capture files under root.
func harvestCaptures(root string) (out [][]byte, links []layers.LinkType) {
	filepath.Walk(root, func(p string, info os.FileInfo, err error) error {
		if err != nil || info.IsDir() || info.Size() > 4<<20 || strings.Contains(p, "/.git/") {
			return nil
		}
		isNg := strings.HasSuffix(p, ".pcapng")
		if !isNg && !strings.HasSuffix(p, ".pcap") && !strings.HasSuffix(p, ".cap") {
			return nil
		}
		f, err := os.Open(p)
		if err != nil {
			return nil
		}
		defer f.Close()
		vlib.Guard(func() {
			n := 0
			if isNg {
				r, err := pcapgo.NewNgReader(f, pcapgo.DefaultNgReaderOptions)
				if err != nil {
					return
				}
				for n < 300 {
					d, ci, err := r.ReadPacketData()
					if err != nil {
						return
					}
					lt := r.LinkType()
					if ifc, err := r.Interface(ci.InterfaceIndex); err == nil {
						lt = ifc.LinkType // a section may hold interfaces of several link types
					}
					out, links = append(out, d), append(links, lt)
					n++
				}
				return
			}
			r, err := pcapgo.NewReader(f)
			if err != nil {
				return
			}
			for n < 300 {
				d, _, err := r.ReadPacketData()
				if err != nil {
					return
				}
				out, links = append(out, d), append(links, r.LinkType())
				n++
			}
		})
		return nil
	})
	return
}

// deepSeeds counts the seeds of t that decode into at least two layers that are not error layers.
func (c *Corpus) deepSeeds(t gopacket.LayerType) int {
	deep := 0
	for _, b := range c.Seeds[t] {
		n := 0
		vlib.Guard(func() {
			note(t, b)
			p := gopacket.NewPacket(b, t, gopacket.DecodeOptions{NoCopy: true})
			for _, l := range p.Layers() {
				if _, isErr := l.(gopacket.ErrorLayer); !isErr && l.LayerType() != gopacket.LayerTypeDecodeFailure && l.LayerType() != gopacket.LayerTypePayload {
					n++
				}
			}
		})
		if n >= 2 {
			deep++
		}
	}
	return deep
}

// First holds, when RecordFirst is set before Build, what the earliest decodes of this process returned (the builder's
// ranking pass tries every fixture literal against the types that lack seeds, before the hand-made and searched inputs
// are decoded): C02 decodes the same inputs again at the very end of its run, after everything else was decoded.
type FirstDecode struct {
	T    gopacket.LayerType
	B    []byte
	DSAD bool // decoded with DecodeStreamsAsDatagrams (always with NoCopy)
	Sig  sig.PacketSig
}

// Modified lists the first layer types of inputs that decoding in place (NoCopy) changed while the corpus was built.
var Modified []string

var (
	RecordFirst   bool
	First         []FirstDecode
	firstFixtures int
)

// LastInput, when set, receives every input just before the corpus builder hands it to the library: the builder runs
// library code outside any case, and a process-fatal error there (stack overflow, ...) must still name its input.
var LastInput *os.File

func note(t gopacket.LayerType, b []byte) {
	if LastInput == nil {
		return
	}
	var h [8]byte
	binary.LittleEndian.PutUint32(h[:4], uint32(t))
	binary.LittleEndian.PutUint32(h[4:], uint32(len(b)))
	LastInput.WriteAt(append(h[:], b...), 0)
}

func addr(b []byte) uintptr { return uintptr(unsafe.Pointer(unsafe.SliceData(b))) }

// addDecoded decodes data as first and records, for every layer of the result, the suffix of data that starts at that
// layer as a seed for its type.
func (c *Corpus) addDecoded(data []byte, first gopacket.LayerType) int {
	var p gopacket.Packet
	pristine := append([]byte{}, data...)
	pi := vlib.Guard(func() {
		note(first, data)
		p = gopacket.NewPacket(data, first, gopacket.DecodeOptions{NoCopy: true, DecodeStreamsAsDatagrams: true})
		p.Layers()
	})
	if !bytes.Equal(data, pristine) {
		Modified = append(Modified, first.String())
		copy(data, pristine)
	}
	if pi != nil || p == nil {
		return 0
	}
	if RecordFirst && firstFixtures < 1500 && len(data) <= 2048 {
		firstFixtures++
		vlib.Guard(func() { First = append(First, FirstDecode{T: first, B: data, DSAD: true, Sig: sig.Packet(p, true)}) })
	}
	n := 0
	base := addr(data)
	var prevPayload []byte
	for _, l := range p.Layers() {
		t := l.LayerType()
		if t == gopacket.LayerTypeDecodeFailure || t == gopacket.LayerTypePayload {
			continue
		}
		cts := l.LayerContents()
		if len(cts) == 0 {
			// some decoders (OSPF, ...) do not fill in their contents: the layer was decoded from what the layer in front of
			// it left as payload
			cts = prevPayload
			c.Stats["seeds_located_through_the_previous_payload"]++
		}
		prevPayload = l.LayerPayload()
		if len(cts) == 0 {
			continue
		}
		a := addr(cts)
		if a < base || a >= base+uintptr(len(data)) {
			continue // the layer does not point into the packet (reassembled data)
		}
		off := int(a - base)
		if len(c.Seeds[t]) < 400 {
			c.Seeds[t] = append(c.Seeds[t], data[off:])
			n++
		}
	}
	return n
}

var harvestFirst = []gopacket.LayerType{layers.LayerTypeEthernet, layers.LayerTypeIPv4, layers.LayerTypeIPv6, layers.LayerTypeDot11, layers.LayerTypeRadioTap,
	layers.LayerTypeLinuxSLL, layers.LayerTypeLoopback, layers.LayerTypePPP, layers.LayerTypeUSB, layers.LayerTypePrismHeader, layers.LayerTypeLinuxSLL2}

// Build harvests everything. It is deterministic for a given tree.
func Build(repo string) *Corpus {
	c := &Corpus{Seeds: map[gopacket.LayerType][][]byte{}, Stats: map[string]int{}}
	c.Types = RegisteredTypes()
	lits := harvestLiterals(repo)
	c.Stats["fixture_literals"] = len(lits)
	caps, links := harvestCaptures(repo)
	c.Stats["fixture_capture_packets"] = len(caps)
	for _, b := range lits {
		c.All = append(c.All, b)
		best := 0
		for _, ft := range harvestFirst {
			if n := c.addDecoded(b, ft); n > best {
				best = n
			}
			if best >= 3 && ft == layers.LayerTypeEthernet {
				break
			}
		}
	}
	for i, b := range caps {
		c.All = append(c.All, b)
		if c.addDecoded(b, links[i].LayerType()) < 2 && links[i].LayerType() != layers.LayerTypeEthernet {
			c.addDecoded(b, layers.LayerTypeEthernet)
		}
	}
	for _, b := range Constructed(vlib.NewRand(12345), 400) {
		c.All = append(c.All, b)
		c.addDecoded(b, layers.LayerTypeEthernet)
	}
	// a literal may itself be a bare layer of any registered type whose decoder accepts it without error: offer each
	// literal to each type that has few seeds and keep the ones that decode furthest / consume most (a 4-byte literal that
	// some decoder happens to accept must not crowd out the real fixture of that protocol)
	for _, t := range c.Types {
		if len(c.Seeds[t]) >= 8 {
			continue
		}
		type cand struct {
			b     []byte
			score int
		}
		var cands []cand
		for _, b := range lits {
			if len(b) > 2048 {
				continue
			}
			score := -1
			vlib.Guard(func() {
				note(t, b)
				p := gopacket.NewPacket(b, t, gopacket.DecodeOptions{NoCopy: true})
				ls := p.Layers()
				if p.ErrorLayer() == nil && len(ls) > 0 && ls[0].LayerType() == t {
					score = min(len(ls[0].LayerContents()), 512) + 64*(len(ls)-1)
					if RecordFirst && len(First) < 3000 && len(b) <= 1024 {
						First = append(First, FirstDecode{T: t, B: b, Sig: sig.Packet(p, true)})
					}
				}
			})
			if score >= 0 {
				cands = append(cands, cand{b, score})
			}
		}
		sort.SliceStable(cands, func(a, b int) bool { return cands[a].score > cands[b].score })
		for i := 0; i < len(cands) && len(c.Seeds[t]) < 8; i++ {
			c.Seeds[t] = append(c.Seeds[t], cands[i].b)
		}
	}
	withSeeds := 0
	for _, t := range c.Types {
		if len(c.Seeds[t]) > 0 {
			withSeeds++
		}
	}
	// hand-made seeds for types that neither the fixtures nor the search reach
	for t, list := range handMade() {
		for _, b := range list {
			ok := false
			pristine := append([]byte{}, b...)
			vlib.Guard(func() {
				note(t, b)
				ls := gopacket.NewPacket(b, t, gopacket.DecodeOptions{NoCopy: true}).Layers()
				ok = len(ls) > 0 && ls[0].LayerType() != gopacket.LayerTypeDecodeFailure
			})
			if !bytes.Equal(b, pristine) {
				// the builder decodes in place (NoCopy); a decoder that writes to its input has just damaged the seed itself,
				// and every later use would see the damaged bytes consistently: remember it (C02 reports it) and restore
				Modified = append(Modified, t.String())
				copy(b, pristine)
			}
			// kept whether or not it decodes: the encodings are well-formed by construction, so a tree on which one of them
			// fails to decode is exactly a tree the checks should see it on
			if !ok {
				c.Stats["hand_made_seeds_that_do_not_decode"]++
			}
			c.Seeds[t] = append([][]byte{b}, c.Seeds[t]...) // in front: consumers take the first seeds of a type
			c.Stats["hand_made_seeds"]++
		}
	}
	// types the fixtures never reach: search a fixed PRNG sequence of short inputs for ones whose first layer decodes as
	// t, preferring those that get furthest (most layers in front of a failure) - prefixes and mutations of these walk
	// the failure point through every layer boundary the decoder chain has
	discovered := 0
	for _, t := range c.Types {
		if c.deepSeeds(t) >= 4 || t == gopacket.LayerTypeDecodeFailure || t == gopacket.LayerTypePayload || t == gopacket.LayerTypeFragment || t == gopacket.LayerTypeZero {
			continue
		}
		r := vlib.NewRand(uint64(t)*7919 + 17)
		type cand struct {
			b []byte
			n int
		}
		var cands []cand
		for try := 0; try < 4000; try++ {
			var b []byte
			switch try % 4 {
			case 0:
				b = r.Bytes(r.Range(1, 64))
			case 1: // small values: versions, types and lengths that decoders switch on
				b = make([]byte, r.Range(4, 48))
				for i := range b {
					b[i] = byte(r.Intn(16))
				}
			case 2:
				b = make([]byte, r.Range(4, 96))
				for i := 0; i < 6 && i < len(b); i++ {
					b[r.Intn(len(b))] = r.Byte()
				}
			default:
				b = r.Bytes(r.Range(1, 16))
				b = append(b, make([]byte, r.Intn(48))...)
			}
			n := 0
			vlib.Guard(func() {
				note(t, b)
				p := gopacket.NewPacket(b, t, gopacket.DecodeOptions{NoCopy: true})
				ls := p.Layers()
				if len(ls) == 0 || ls[0].LayerType() != t {
					return
				}
				for _, l := range ls {
					if _, isErr := l.(gopacket.ErrorLayer); !isErr && l.LayerType() != gopacket.LayerTypeDecodeFailure && l.LayerType() != gopacket.LayerTypePayload {
						n++
					}
				}
			})
			if n > 0 {
				cands = append(cands, cand{b, n})
			}
		}
		sort.SliceStable(cands, func(a, b int) bool { return cands[a].n > cands[b].n })
		for i := 0; i < len(cands) && i < 8; i++ {
			if cands[i].n < 2 && len(c.Seeds[t]) > 0 {
				break // one-layer inputs add nothing to the seeds the type already has
			}
			c.Seeds[t] = append(c.Seeds[t], cands[i].b)
			discovered++
		}
	}
	c.Stats["seeds_discovered_by_search"] = discovered
	withAny := 0
	for _, t := range c.Types {
		if len(c.Seeds[t]) > 0 {
			withAny++
		}
	}
	c.Stats["layer_types_with_any_seed"] = withAny
	c.Stats["registered_layer_types"] = len(c.Types)
	c.Stats["layer_types_with_fixture_seeds"] = withSeeds
	return c
}

// Constructed builds n packets of the core stacks byte by byte.
func Constructed(r *vlib.Rand, n int) [][]byte {
	var out [][]byte
	for i := 0; i < n; i++ {
		out = append(out, ConstructedOne(r))
	}
	return out
}

func tcpOptions(r *vlib.Rand) []byte {
	var out []byte
	for k := r.Intn(4); k > 0; k-- {
		if opt := tcpOption(r); len(out)+len(opt) <= 40 {
			out = append(out, opt...) // an option that does not fit into the 40 bytes is left out as a whole
		}
	}
	for len(out)%4 != 0 {
		out = append(out, 0)
	}
	return out
}

func tcpOption(r *vlib.Rand) []byte {
	var o []byte
	for k := 1; k > 0; k-- {
		switch r.Intn(8) {
		case 0:
			o = append(o, 2, 4, r.Byte(), r.Byte()) // MSS
		case 1:
			o = append(o, 3, 3, byte(r.Intn(15))) // window scale
		case 2:
			o = append(o, 4, 2) // SACK permitted
		case 3:
			o = append(o, 5, 10)
			o = append(o, r.Bytes(8)...) // SACK
		case 4:
			o = append(o, 8, 10)
			o = append(o, r.Bytes(8)...) // timestamps
		case 5:
			o = append(o, 1) // NOP
		case 6: // MPTCP: one of the subtypes, with a length the option format defines for it
			switch sub := r.Intn(8); sub {
			case 0: // MP_CAPABLE: 4 / 12 / 20
				ln := []int{4, 12, 20}[r.Intn(3)]
				o = append(o, 30, byte(ln), 0x00|1, 0x81)
				o = append(o, r.Bytes(ln-4)...)
			case 1: // MP_JOIN: 12 / 16 / 24
				ln := []int{12, 16, 24}[r.Intn(3)]
				o = append(o, 30, byte(ln), 0x10|byte(r.Intn(2)), r.Byte())
				o = append(o, r.Bytes(ln-4)...)
			case 2: // DSS with a 4-byte data ACK only
				o = append(o, 30, 8, 0x20, 0x01)
				o = append(o, r.Bytes(4)...)
			case 3: // REMOVE_ADDR
				o = append(o, 30, 4, 0x40, r.Byte())
			case 4: // MP_PRIO: 3 / 4
				if r.Bool() {
					o = append(o, 30, 3, 0x50|byte(r.Intn(2)))
				} else {
					o = append(o, 30, 4, 0x50|byte(r.Intn(2)), r.Byte())
				}
			case 5: // MP_FAIL
				o = append(o, 30, 12, 0x60, 0)
				o = append(o, r.Bytes(8)...)
			case 6: // MP_FASTCLOSE
				o = append(o, 30, 12, 0x70, 0)
				o = append(o, r.Bytes(8)...)
			default: // MP_TCPRST
				o = append(o, 30, 4, 0x80|byte(r.Intn(16)), r.Byte())
			}
		default:
			ln := r.Range(2, 8)
			o = append(o, byte(r.Range(9, 29)), byte(ln))
			o = append(o, r.Bytes(ln-2)...)
		}
	}
	return o
}

// ConstructedOne builds one well-formed packet.
func ConstructedOne(r *vlib.Rand) []byte {
	ma, mb := pk.M6(r.Bytes(6)), pk.M6(r.Bytes(6))
	a4, b4 := pk.A4(r.Bytes(4)), pk.A4(r.Bytes(4))
	a16, b16 := pk.A16(r.Bytes(16)), pk.A16(r.Bytes(16))
	v6 := r.Chance(1, 3)
	payload := r.Bytes(r.Intn(64))
	pseudo := func(p uint8) func(int) []byte {
		return func(n int) []byte {
			if v6 {
				return pk.PseudoV6(a16, b16, p, n)
			}
			return pk.PseudoV4(a4, b4, p, n)
		}
	}
	var proto uint8
	var seg []byte
	switch r.Intn(8) {
	case 0, 1:
		proto = 6
		seg = pk.TCP(pk.TCPH{Sport: uint16(40000 + r.Intn(1000)), Dport: uint16(41000 + r.Intn(1000)), Seq: r.U32(), Ack: r.U32(), Flags: uint16(r.Intn(512)), Window: r.U16(), Options: tcpOptions(r)}, payload, pseudo(6))
	case 2:
		proto = 17
		seg = pk.UDP(uint16(40000+r.Intn(1000)), uint16(40000+r.Intn(1000)), payload, pseudo(17))
	case 3: // DNS over UDP
		proto = 17
		q := []byte{byte(r.Intn(256)), byte(r.Intn(256)), 1, 0, 0, 1, 0, 0, 0, 0, 0, 0, 3, 'w', 'w', 'w', 4, 't', 'e', 's', 't', 0, 0, 1, 0, 1}
		seg = pk.UDP(uint16(40000+r.Intn(1000)), 53, q, pseudo(17))
	case 4:
		if v6 {
			proto = 58
			body := append([]byte{0, 0, 0, 0}, payload...)
			seg = pk.ICMP6(uint8(128+r.Intn(2)), 0, body, pseudo(58))
		} else {
			proto = 1
			seg = pk.ICMP4(uint8([]int{0, 8, 3, 11}[r.Intn(4)]), 0, r.U32(), payload)
		}
	case 5: // GRE carrying IPv4
		proto = 47
		inner := pk.IPv4(pk.IPv4H{TTL: 5, Proto: 17, Src: b4, Dst: a4, ID: r.U16()}, pk.UDP(4000, 4001, payload, func(n int) []byte { return pk.PseudoV4(b4, a4, 17, n) }))
		seg = append([]byte{0, 0, 0x08, 0x00}, inner...)
	case 6: // SCTP common header + DATA chunk
		proto = 132
		seg = make([]byte, 12)
		binary.BigEndian.PutUint16(seg[0:], r.U16())
		binary.BigEndian.PutUint16(seg[2:], r.U16())
		ch := []byte{0, 3, 0, byte(16 + len(payload)), 0, 0, 0, 1, 0, 1, 0, 0, 0, 0, 0, 0}
		ch = append(ch, payload...)
		for len(ch)%4 != 0 {
			ch = append(ch, 0)
		}
		seg = append(seg, ch...)
	default:
		proto = 17
		// VXLAN carrying Ethernet
		inner := pk.Eth(mb, ma, 0x0800, pk.IPv4(pk.IPv4H{TTL: 9, Proto: 17, Src: a4, Dst: b4}, pk.UDP(1, 2, payload, nil)))
		seg = pk.UDP(uint16(40000+r.Intn(1000)), 4789, append([]byte{8, 0, 0, 0, 0, 0, 42, 0}, inner...), pseudo(17))
	}
	var ip []byte
	etype := uint16(0x0800)
	if v6 {
		etype = 0x86dd
		ext := []byte{}
		nh := proto
		if r.Chance(1, 3) { // hop-by-hop with PadN
			ext = append([]byte{proto, 0, 1, 4, 0, 0, 0, 0}, ext...)
			nh = 0
		}
		ip = pk.IPv6(pk.IPv6H{TC: r.Byte(), Flow: r.U32(), NextHdr: nh, HopLimit: 64, Src: a16, Dst: b16}, append(ext, seg...))
	} else {
		var opts []byte
		if r.Chance(1, 3) {
			opts = []byte{0x94, 4, 0, 0}
			if r.Bool() {
				opts = append(opts, 1, 1, 1, 0)
			}
		}
		ip = pk.IPv4(pk.IPv4H{TOS: r.Byte(), ID: r.U16(), Flags: uint8(r.Intn(2)) << 1, TTL: 64, Proto: proto, Src: a4, Dst: b4, Options: opts}, seg)
	}
	if r.Chance(1, 4) {
		return pk.Eth(mb, ma, 0x8100, pk.Dot1Q(uint8(r.Intn(8)), r.Bool(), uint16(r.Intn(4096)), etype, ip))
	}
	if r.Chance(1, 10) { // ARP instead
		arp := []byte{0, 1, 8, 0, 6, 4, 0, byte(1 + r.Intn(2))}
		arp = append(arp, ma[:]...)
		arp = append(arp, a4[:]...)
		arp = append(arp, mb[:]...)
		arp = append(arp, b4[:]...)
		return pk.Eth(mb, ma, 0x0806, arp)
	}
	return pk.Eth(mb, ma, etype, ip)
}

// ---- mutators ------------------------------------------------------------------------------------------------------------

var subst = []byte{0, 1, 0x7f, 0x80, 0xfe, 0xff}

// Mutate returns a mutation of seed (never the seed itself unless it is empty) and a short description.
func (c *Corpus) Mutate(r *vlib.Rand, seed []byte) ([]byte, string) {
	m := append([]byte{}, seed...)
	if len(m) == 0 {
		return r.Bytes(r.Intn(16)), "random"
	}
	switch r.Intn(13) {
	case 0, 1: // prefix (truncation) - the shape that finds missing length checks
		n := r.Intn(len(m) + 1)
		return m[:n], "prefix"
	case 2:
		i := r.Intn(len(m))
		m[i] ^= 1 << uint(r.Intn(8))
		return m, "bitflip"
	case 3:
		i := r.Intn(len(m))
		m[i] = subst[r.Intn(len(subst))]
		return m, "byte"
	case 4: // "length looking" byte +- small
		i := r.Intn(len(m))
		d := []int{1, 2, 4, 8}[r.Intn(4)]
		if r.Bool() {
			d = -d
		}
		m[i] = byte(int(m[i]) + d)
		return m, "delta"
	case 5: // 16-bit boundary value at an aligned offset
		if len(m) >= 2 {
			i := r.Intn(len(m)/2) * 2
			v := []uint16{0, 1, 0x7fff, 0x8000, 0xfffe, 0xffff, uint16(len(m)), uint16(len(m) - i)}[r.Intn(8)]
			if r.Bool() {
				binary.BigEndian.PutUint16(m[i:], v)
			} else {
				binary.LittleEndian.PutUint16(m[i:], v)
			}
		}
		return m, "u16"
	case 6:
		if len(m) >= 4 {
			i := r.Intn(len(m)/4) * 4
			v := []uint32{0, 1, 0x7fffffff, 0x80000000, 0xfffffffe, 0xffffffff, uint32(len(m)), 0x10000}[r.Intn(8)]
			if r.Bool() {
				binary.BigEndian.PutUint32(m[i:], v)
			} else {
				binary.LittleEndian.PutUint32(m[i:], v)
			}
		}
		return m, "u32"
	case 7: // splice with another seed
		if len(c.All) > 0 {
			o := c.All[r.Intn(len(c.All))]
			cut := r.Intn(len(m) + 1)
			return append(m[:cut:cut], o[r.Intn(len(o)+1):]...), "splice"
		}
	case 8: // block repeat
		i := r.Intn(len(m))
		n := r.Range(1, 32)
		if i+n > len(m) {
			n = len(m) - i
		}
		rep := bytes.Repeat(m[i:i+n], r.Range(2, 6))
		return append(append(append([]byte{}, m[:i]...), rep...), m[i+n:]...), "repeat"
	case 9: // two mutations
		a, _ := c.Mutate(r, m)
		b, _ := c.Mutate(r, a)
		return b, "double"
	case 10: // extend with junk
		return append(m, r.Bytes(r.Range(1, 64))...), "extend"
	case 11: // treat a byte / 16-bit word as a length: grow the region it covers by k bytes and add k to it
		for try := 0; try < 8; try++ {
			off := r.Intn(len(m))
			width := 1 + r.Intn(2)
			if off+width > len(m) {
				continue
			}
			v := int(m[off])
			if width == 2 {
				v = int(binary.BigEndian.Uint16(m[off:]))
			}
			base := []int{off + width, off, 0}[r.Intn(3)] // counted from behind the field, from the field, from the start
			end := base + v
			if v == 0 || end > len(m) || end < off+width {
				continue
			}
			k := r.Range(1, 4)
			out := append(append(append([]byte{}, m[:end]...), r.Bytes(k)...), m[end:]...)
			if width == 2 {
				binary.BigEndian.PutUint16(out[off:], uint16(v+k))
			} else {
				out[off] = byte(v + k)
			}
			return out, "grow-region"
		}
		return m, "seed"
	}
	return m, "seed"
}

// lenField is a place in a seed that looks like a length covering everything up to the end of the seed.
type lenField struct {
	off, width int
	le         bool
	v          int
}

func (f lenField) put(b []byte, v int) {
	switch {
	case f.width == 1:
		b[f.off] = byte(v)
	case f.width == 3:
		b[f.off], b[f.off+1], b[f.off+2] = byte(v>>16), byte(v>>8), byte(v)
	case f.width == 4 && f.le:
		binary.LittleEndian.PutUint32(b[f.off:], uint32(v))
	case f.width == 4:
		binary.BigEndian.PutUint32(b[f.off:], uint32(v))
	case f.le:
		binary.LittleEndian.PutUint16(b[f.off:], uint16(v))
	default:
		binary.BigEndian.PutUint16(b[f.off:], uint16(v))
	}
}

func (f lenField) get(b []byte) int {
	switch {
	case f.width == 1:
		return int(b[f.off])
	case f.width == 3:
		return int(b[f.off])<<16 | int(b[f.off+1])<<8 | int(b[f.off+2])
	case f.width == 4 && f.le:
		return int(binary.LittleEndian.Uint32(b[f.off:]))
	case f.width == 4:
		return int(binary.BigEndian.Uint32(b[f.off:]))
	case f.le:
		return int(binary.LittleEndian.Uint16(b[f.off:]))
	}
	return int(binary.BigEndian.Uint16(b[f.off:]))
}

// BigStretch returns variants of seed whose tail is stretched by 300 and by 66 000 bytes with every length field that
// covers the tail increased accordingly - fields of 1, 2, 3 and 4 bytes are recognised, and a variant is made only from
// the outermost fields that can all hold the new value. The result is a consistent message with one element larger
// than 255 or 65 535 bytes (a 24-bit AVP or handshake length, a 32-bit block length): what a serializer that writes only
// the low 8 or 16 bits of such a length gets wrong.
func (c *Corpus) BigStretch(seed []byte) (out [][]byte) {
	n := len(seed)
	if n < 4 || n > 4096 {
		return nil
	}
	var fs []lenField
	for off := 0; off < n && len(fs) < 12; off++ {
		for _, f := range []lenField{{off: off, width: 4}, {off: off, width: 4, le: true}, {off: off, width: 3}, {off: off, width: 2}, {off: off, width: 2, le: true}, {off: off, width: 1}} {
			if off+f.width > n {
				continue
			}
			f.v = f.get(seed)
			if f.v == 0 || f.v > n {
				continue
			}
			if rest := n - f.v; rest >= 0 && rest <= off+f.width+8 {
				fs = append(fs, f)
				off += f.width - 1 // the bytes of a recognised field are not fields of their own
				break
			}
		}
	}
	for _, k := range []int{300, 66000} {
		for j := 1; j <= len(fs); j++ {
			ok := true
			for _, f := range fs[:j] {
				if f.v+k >= 1<<(8*f.width) {
					ok = false
				}
			}
			if !ok {
				break
			}
			b := append(make([]byte, 0, n+k), seed...)
			for i := 0; i < k; i++ {
				b = append(b, seed[n-1-(i%n)]^byte(i>>3))
			}
			for _, f := range fs[:j] {
				f.put(b, f.v+k)
			}
			out = append(out, b)
		}
	}
	return
}

// tailFields finds the bytes and 16-bit words of seed whose value, counted from the start of the seed, from the field or
// from behind the field (plus at most 8 bytes of fixed header), reaches exactly the end of the seed: total lengths,
// record lengths of the last record, option lengths of the last option. Outermost first.
func tailFields(seed []byte) []lenField {
	var out []lenField
	n := len(seed)
	for off := 0; off < n && len(out) < 12; off++ {
		for _, f := range []lenField{{off: off, width: 2}, {off: off, width: 2, le: true}, {off: off, width: 1}} {
			if off+f.width > n {
				continue
			}
			switch {
			case f.width == 1:
				f.v = int(seed[off])
			case f.le:
				f.v = int(binary.LittleEndian.Uint16(seed[off:]))
			default:
				f.v = int(binary.BigEndian.Uint16(seed[off:]))
			}
			if f.v == 0 || f.v > n {
				continue
			}
			if rest := n - f.v; rest >= 0 && rest <= off+f.width+8 { // n == v + (something between 0 and the end of the field + 8)
				out = append(out, f)
				break
			}
		}
	}
	return out
}

// Structural returns deterministic variants of seed in which the structure stays consistent at the outer levels and
// becomes inconsistent further in: the tail is stretched by k bytes and the outermost j length fields that cover it are
// increased by k (an inner element list then ends in a partial element - the shape a "while bytes remain" loop must
// check for), one covering field alone is increased (inner region overruns the outer) or decreased (inner elements
// overrun their container) without touching the data.
func (c *Corpus) Structural(seed []byte) (out [][]byte, how []string) {
	fs := tailFields(seed)
	if len(fs) == 0 || len(seed) > 4096 {
		return nil, nil
	}
	add := func(b []byte, h string) { out, how = append(out, b), append(how, h) }
	for j := 1; j <= len(fs) && j <= 5; j++ {
		for _, k := range []int{1, 2, 3, 4, 5, 7, 8} {
			for fill := 0; fill < 2; fill++ {
				b := append([]byte{}, seed...)
				for i := 0; i < k; i++ {
					if fill == 0 {
						b = append(b, 0)
					} else {
						b = append(b, seed[len(seed)-1-(i%len(seed))]^0x5a)
					}
				}
				for _, f := range fs[:j] {
					f.put(b, f.v+k)
				}
				add(b, "stretch-tail")
			}
		}
	}
	for _, f := range fs {
		for _, k := range []int{1, 2, 3, 4, 8} {
			b := append([]byte{}, seed...)
			f.put(b, f.v+k)
			add(b, "length+k")
			if f.v-k > 0 {
				b = append([]byte{}, seed...)
				f.put(b, f.v-k)
				add(b, "length-k")
			}
		}
	}
	return
}

// Plain returns an input that is not derived from a seed.
func Plain(r *vlib.Rand) ([]byte, string) {
	switch r.Intn(5) {
	case 0:
		return make([]byte, r.Intn(65)), "zeros"
	case 1:
		return bytes.Repeat([]byte{0xff}, r.Intn(65)), "ones"
	case 2:
		return r.Bytes(r.Range(1490, 1510)), "random-mtu"
	case 3:
		return r.Bytes(r.Intn(24)), "random-short"
	}
	return r.Bytes(r.Intn(300)), "random"
}

// Input picks an input for layer type t.
func (c *Corpus) Input(r *vlib.Rand, t gopacket.LayerType) ([]byte, string) {
	seeds := c.Seeds[t]
	// the first seeds of a type are the hand-made ones (one per record / chunk / option kind) and the fixtures that decode
	// furthest: one pick in three comes from them, so that a check with few inputs per type still meets them
	pick := func() []byte {
		if r.Chance(1, 3) {
			return seeds[r.Intn(min(len(seeds), 4))]
		}
		return seeds[r.Intn(len(seeds))]
	}
	switch {
	case len(seeds) > 0 && r.Chance(1, 8):
		return pick(), "seed"
	case len(seeds) > 0 && r.Chance(5, 7):
		return c.Mutate(r, pick())
	case len(c.All) > 0 && r.Chance(1, 3):
		return c.Mutate(r, c.All[r.Intn(len(c.All))])
	}
	return Plain(r)
}

// handMade returns minimal well-formed encodings, written from the protocol layouts, for layer types without fixtures.
func handMade() map[gopacket.LayerType][][]byte {
	a4, b4 := pk.A4([]byte{10, 0, 0, 1}), pk.A4([]byte{10, 0, 0, 2})
	ip := pk.IPv4(pk.IPv4H{TTL: 64, Proto: 17, Src: a4, Dst: b4, ID: 7}, pk.UDP(40001, 40002, []byte("hello, world"), func(n int) []byte { return pk.PseudoV4(a4, b4, 17, n) }))
	snap := append([]byte{0xaa, 0xaa, 0x03, 0, 0, 0, 0x08, 0x00}, ip...)
	eth := pk.Eth(pk.M6([]byte{2, 0, 0, 0, 0, 1}), pk.M6([]byte{2, 0, 0, 0, 0, 2}), 0x0800, ip)
	pktap := make([]byte, 156)
	binary.LittleEndian.PutUint32(pktap[0:], 156)
	binary.LittleEndian.PutUint32(pktap[4:], 1)
	binary.LittleEndian.PutUint32(pktap[8:], 1) // DLT_EN10MB
	copy(pktap[0x0c:], "en0")
	binary.LittleEndian.PutUint32(pktap[0x24:], 1)
	binary.LittleEndian.PutUint32(pktap[0x28:], 2)
	binary.LittleEndian.PutUint32(pktap[0x2c:], 14)
	binary.LittleEndian.PutUint32(pktap[0x34:], 4242)
	copy(pktap[0x38:], "curl")
	copy(pktap[0x58:], "curl")
	pktap = append(pktap, eth...)
	// SCTP chunk types have no decoder of their own: they are reached through an SCTP common header
	sctp := func(chunks ...[]byte) []byte {
		b := []byte{0x9c, 0x40, 0x9c, 0x41, 1, 2, 3, 4, 0, 0, 0, 0}
		for _, ch := range chunks {
			b = append(b, ch...)
		}
		return b
	}
	hb := []byte{4, 0, 0, 12, 0, 1, 0, 8, 0xde, 0xad, 0xbe, 0xef}
	hbAck := []byte{5, 0, 0, 12, 0, 1, 0, 8, 0xde, 0xad, 0xbe, 0xef}
	sErr := []byte{9, 0, 0, 20, 0, 2, 0, 8, 0, 0, 0, 7, 0, 6, 0, 8, 0x3f, 0, 0, 4}
	abort := []byte{6, 0, 0, 12, 0, 12, 0, 8, 'b', 'y', 'e', '!'}
	unk := []byte{0x3f, 0, 0, 8, 1, 2, 3, 4}
	unkSkip := []byte{0xc1, 0, 0, 6, 1, 2, 0, 0}
	cookieAck, shutAck, shutDone := []byte{11, 0, 0, 4}, []byte{8, 0, 0, 4}, []byte{14, 1, 0, 4}
	shut := []byte{7, 0, 0, 8, 0, 0, 0, 9}
	cookie := []byte{10, 0, 0, 12, 1, 2, 3, 4, 5, 6, 7, 8}
	initC := []byte{1, 0, 0, 32, 0, 0, 0, 1, 0, 1, 0, 0, 0, 2, 0, 2, 0, 0, 0, 9, 0, 5, 0, 8, 10, 0, 0, 1, 0xc0, 0, 0, 4}
	initAck := []byte{2, 0, 0, 32, 0, 0, 0, 1, 0, 1, 0, 0, 0, 2, 0, 2, 0, 0, 0, 9, 0, 7, 0, 12, 1, 2, 3, 4, 5, 6, 7, 8}
	sack := []byte{3, 0, 0, 24, 0, 0, 0, 9, 0, 1, 0, 0, 0, 1, 0, 1, 0, 2, 0, 3, 0, 0, 0, 7}
	data := []byte{0, 3, 0, 20, 0, 0, 0, 1, 0, 1, 0, 0, 0, 0, 0, 0, 'd', 'a', 't', 'a'}
	// radiotap headers whose Flags field switches on what no fixture uses: the driver pad behind the 802.11 header (DATAPAD)
	// and a frame check sequence (FCS), in front of a QoS data frame and of a four-address data frame
	llc := append([]byte{0xaa, 0xaa, 0x03, 0, 0, 0, 0x08, 0x06}, make([]byte, 28)...)
	mac3 := []byte{0, 0x11, 0x22, 0x33, 0x44, 0x55, 0x66, 0x77, 0x88, 0x99, 0xaa, 0xbb, 0, 0x11, 0x22, 0x33, 0x44, 0x55}
	qos := append(append(append([]byte{0x88, 0x01, 0x2c, 0}, mac3...), 0x10, 0, 0, 0, 0, 0), llc...)                                        // QoS data, 26-byte header, 2 pad bytes
	wds := append(append(append(append([]byte{0x08, 0x03, 0x2c, 0}, mac3...), 0x10, 0), 2, 0, 0, 0, 0, 9), append([]byte{0, 0}, llc...)...) // 4 addresses, pad
	rtap := func(flags byte, frame []byte) []byte {
		return append([]byte{0, 0, 9, 0, 2, 0, 0, 0, flags}, frame...)
	}
	return map[gopacket.LayerType][][]byte{
		// CDP: an Addresses TLV with one 802.2-format (8-byte protocol id) IPv6 address and one NLPID IPv4 address, and a
		// management-address TLV - the fixtures only carry the one-byte protocol id form
		layers.LayerTypeCiscoDiscovery: {
			{2, 0xb4, 0, 0, 0, 1, 0, 6, 'R', '1', 0, 2, 0, 0x2d, 0, 0, 0, 2, 2, 8, 0xaa, 0xaa, 3, 0, 0, 0, 0x86, 0xdd, 0, 16, 0xfe, 0x80, 0, 0, 0, 0, 0, 0, 2, 0x0b, 0xbe, 0xff, 0xfe, 0x18, 0x9a, 0x41, 1, 1, 0xcc, 0, 4, 10, 0, 0, 1,
				0, 0x16, 0, 0x11, 0, 0, 0, 1, 1, 1, 0xcc, 0, 4, 10, 0, 0, 2},
			{2, 0xb4, 0, 0, 0, 2, 0, 0x24, 0, 0, 0, 1, 2, 8, 0xaa, 0xaa, 3, 0, 0, 0, 8, 0, 0, 16, 0xfe, 0x80, 0, 0, 0, 0, 0, 0, 2, 0x0b, 0xbe, 0xff, 0xfe, 0x18, 0x9a, 0x41},
		},
		// RADIUS access-request whose EAP message is split over two EAP-Message attributes (as any EAP message above 253
		// bytes is), followed by the message authenticator
		layers.LayerTypeRADIUS: {func() []byte {
			eap := []byte{2, 9, 0, 16, 1, 'u', 's', 'e', 'r', '@', 'e', 'x', '.', 'o', 'r', 'g'}
			b := append([]byte{1, 0x2a, 0, 0}, make([]byte, 16)...)
			b = append(b, 1, 6, 'u', 's', 'e', 'r')
			b = append(append(b, 79, 10), eap[:8]...)
			b = append(append(b, 79, 10), eap[8:]...)
			b = append(append(b, 80, 18), make([]byte, 16)...)
			b[3] = byte(len(b))
			return b
		}()},
		layers.LayerTypeRadioTap: {rtap(0x20, qos), rtap(0x30, append(append([]byte{}, wds...), 1, 2, 3, 4))},
		layers.LayerTypeSCTP: {sctp(hb), sctp(hbAck), sctp(sErr), sctp(abort), sctp(unk), sctp(unkSkip, data), sctp(cookieAck), sctp(shutAck), sctp(shutDone), sctp(shut),
			sctp(cookie, data), sctp(initC), sctp(initAck), sctp(sack, data), sctp(data, sack, hb)},
		layers.LayerTypeDot11DataCFAck:     {snap},
		layers.LayerTypeDot11DataCFPoll:    {snap},
		layers.LayerTypeDot11DataCFAckPoll: {snap},
		// skip count, then forward-data (to a MAC) wrapping a reply (receipt number + data)
		layers.LayerTypeEthernetCTP: {{0, 0, 2, 0, 0xaa, 0xbb, 0xcc, 0xdd, 0xee, 0xff, 1, 0, 0x12, 0x34, 0xde, 0xad, 0xbe, 0xef}, {0, 0, 1, 0, 0x12, 0x34, 0xde, 0xad, 0xbe, 0xef}},
		layers.LayerTypePktap:       {pktap},
		layers.LayerTypeDNS:         dnsZoo(),
		// solicit: client id (DUID-LLT), option request, elapsed time, IA_NA, server id (DUID-LL)
		layers.LayerTypeDHCPv6: {
			{1, 0x57, 0x19, 0x58, 0, 1, 0, 14, 0, 1, 0, 1, 0x1c, 0x38, 0x26, 0x2d, 8, 0, 0x27, 0xfe, 0x8f, 0x95, 0, 6, 0, 4, 0, 23, 0, 24, 0, 8, 0, 2, 0, 0,
				0, 3, 0, 12, 0x27, 0xfe, 0x8f, 0x95, 0, 0, 0x0e, 0x10, 0, 0, 0x15, 0x18, 0, 2, 0, 10, 0, 3, 0, 1, 8, 0, 0x27, 0xd4, 0x10, 0xbb},
			// relay-forward carrying a relay message option with a small solicit
			append(append([]byte{12, 1}, append(make([]byte, 15), 1)...), append(append(make([]byte, 15), 2), 0, 9, 0, 12, 1, 1, 2, 3, 0, 1, 0, 4, 0, 2, 0, 9)...),
		},
	}
}

// Shrinks returns deterministic variants of seed in which a region announced by a length field is cut down to 0..3
// bytes: every byte and big-endian 16-bit word whose value v, counted from behind the field, stays inside the seed is
// taken for a length; the v bytes behind it are replaced by v' < v bytes (the original ones, zeros, 0xff.., or a small
// type value followed by zeros) and the field is set to v'. This produces the tiny-but-consistent TLVs, options and
// sub-records (an identifier of 2 bytes with an unknown type, an option of length 0) that decoders and - later -
// String methods must cope with; truncation and random mutation practically never do.
func (c *Corpus) Shrinks(seed []byte, maxOff int) (out [][]byte) {
	n := len(seed)
	if n > 2048 {
		return nil
	}
	seen := map[uint64]bool{}
	for off := 0; off < n && off < maxOff; off++ {
		for _, width := range []int{2, 1} {
			if off+width > n {
				continue
			}
			v := int(seed[off])
			if width == 2 {
				v = int(binary.BigEndian.Uint16(seed[off:]))
			}
			base := off + width
			end := base + v
			if v == 0 || end > n {
				continue
			}
			for nv := 0; nv <= 3 && nv < v; nv++ {
				for fill := 0; fill < 4; fill++ {
					if nv == 0 && fill > 0 {
						break
					}
					b := append([]byte{}, seed[:base]...)
					for i := 0; i < nv; i++ {
						switch fill {
						case 0:
							b = append(b, seed[base+i])
						case 1:
							b = append(b, 0)
						case 2:
							b = append(b, 0xff)
						default:
							if i == nv-1 {
								b = append(b, 4) // a small type / sub-length value in the last position the region keeps
							} else {
								b = append(b, 0)
							}
						}
					}
					b = append(b, seed[end:]...)
					if width == 2 {
						binary.BigEndian.PutUint16(b[off:], uint16(nv))
					} else {
						b[off] = byte(nv)
					}
					h := vlib.HashBytes(b)
					if !seen[h] {
						seen[h] = true
						out = append(out, b)
					}
				}
			}
			// the region loses its last 1..4 bytes (an element that ends one byte before an optional trailing field)
			for k := 1; k <= 4 && v-k > 3; k++ {
				b := append([]byte{}, seed[:end-k]...)
				b = append(b, seed[end:]...)
				if width == 2 {
					binary.BigEndian.PutUint16(b[off:], uint16(v-k))
				} else {
					b[off] = byte(v - k)
				}
				h := vlib.HashBytes(b)
				if !seen[h] {
					seen[h] = true
					out = append(out, b)
				}
			}
		}
	}
	return
}

// SweepValues are the byte values of the single-byte sweep: numeric extremes plus the bytes that text-like fields treat
// specially (label and path separators, escapes, DNS compression pointer tag).
var SweepValues = []byte{0x00, 0x01, '.', '\\', ' ', '/', ':', '@', 0x7f, 0x80, 0xc0, 0xff}

// ByteSweep returns seed with every byte position below maxPos replaced, in turn, by every sweep value that differs from
// the byte there: the systematic form of the single-byte mutation.
func (c *Corpus) ByteSweep(seed []byte, maxPos int) (out [][]byte) {
	return c.byteSweep(seed, maxPos, SweepValues)
}

// SweepValuesWide adds the small numbers that type, version and count fields switch on.
var SweepValuesWide = append(append([]byte{}, SweepValues...), 2, 3, 4, 5, 6, 7, 8, 9, 10, 16, 32, 64)

// ByteSweepWide is ByteSweep over SweepValuesWide.
func (c *Corpus) ByteSweepWide(seed []byte, maxPos int) (out [][]byte) {
	return c.byteSweep(seed, maxPos, SweepValuesWide)
}

func (c *Corpus) byteSweep(seed []byte, maxPos int, values []byte) (out [][]byte) {
	for p := 0; p < len(seed) && p < maxPos; p++ {
		for _, v := range values {
			if seed[p] == v {
				continue
			}
			b := append([]byte{}, seed...)
			b[p] = v
			out = append(out, b)
		}
	}
	return
}

// dnsZoo builds DNS responses that carry one record of every type the decoder knows (the fixtures have A/AAAA/CNAME/TXT/
// OPT at most): names are written without compression.
func dnsZoo() [][]byte {
	name := func(labels ...string) []byte {
		var b []byte
		for _, l := range labels {
			b = append(b, byte(len(l)))
			b = append(b, l...)
		}
		return append(b, 0)
	}
	u16 := func(v int) []byte { return []byte{byte(v >> 8), byte(v)} }
	u32 := func(v uint32) []byte { return []byte{byte(v >> 24), byte(v >> 16), byte(v >> 8), byte(v)} }
	cat := func(parts ...[]byte) []byte {
		var b []byte
		for _, p := range parts {
			b = append(b, p...)
		}
		return b
	}
	cs := func(s string) []byte { return append([]byte{byte(len(s))}, s...) }
	rr := func(owner []byte, typ, class int, ttl uint32, rdata []byte) []byte {
		return cat(owner, u16(typ), u16(class), u32(ttl), u16(len(rdata)), rdata)
	}
	ex := name("example", "com")
	www := name("www", "example", "com")
	msg := func(id int, q []byte, an, ns, ar [][]byte) []byte {
		b := cat(u16(id), []byte{0x85, 0x80}, u16(1), u16(len(an)), u16(len(ns)), u16(len(ar)), q)
		for _, sec := range [][][]byte{an, ns, ar} {
			for _, r := range sec {
				b = append(b, r...)
			}
		}
		return b
	}
	q := cat(www, u16(255), u16(1))
	svc := cat(u16(1), name("svc", "example", "com"), u16(1), u16(3), []byte{2, 'h', '2'}, u16(3), u16(2), u16(8443), u16(4), u16(4), []byte{192, 0, 2, 1})
	sig := cat(u16(1), []byte{13, 3}, u32(300), u32(1800000000), u32(1700000000), u16(12345), ex, []byte{1, 2, 3, 4, 5, 6, 7, 8, 9, 10, 11, 12, 13, 14, 15, 16})
	one := msg(0x1234, q,
		[][]byte{rr(www, 1, 1, 300, []byte{192, 0, 2, 7}), rr(www, 28, 1, 300, []byte{0x20, 1, 0xd, 0xb8, 0, 0, 0, 0, 0, 0, 0, 0, 0, 0, 0, 1}),
			rr(www, 16, 1, 60, cat(cs("hello"), cs("abc"))), rr(www, 5, 1, 60, name("web", "example", "net")), rr(www, 46, 1, 300, sig)},
		[][]byte{rr(ex, 2, 1, 3600, name("ns1", "example", "com")), rr(ex, 6, 1, 3600, cat(name("ns1", "example", "com"), name("host\\.master", "example", "com"), u32(2024010101), u32(7200), u32(900), u32(1209600), u32(300)))},
		[][]byte{rr(ex, 15, 1, 300, cat(u16(10), name("mail", "example", "com"))), rr([]byte{0}, 41, 4096, 0, cat(u16(10), u16(8), []byte{1, 2, 3, 4, 5, 6, 7, 8}))})
	two := msg(0x4321, cat(ex, u16(255), u16(1)),
		[][]byte{rr(name("_sip", "_udp", "example", "com"), 33, 1, 300, cat(u16(10), u16(60), u16(5060), name("sip", "example", "com"))),
			rr(ex, 35, 1, 300, cat(u16(100), u16(10), cs("u"), cs("E2U+sip"), cs("!^.*$!sip:info@example.com!"), []byte{0})),
			rr(ex, 256, 1, 300, cat(u16(10), u16(1), []byte("https://example.com/path"))),
			rr(ex, 48, 1, 300, cat(u16(257), []byte{3, 13}, []byte{9, 8, 7, 6, 5, 4, 3, 2, 1, 0, 1, 2, 3, 4, 5, 6})),
			rr(ex, 65, 1, 300, svc), rr(ex, 64, 1, 300, cat(u16(0), name("alias", "example", "com")))},
		[][]byte{rr(name("7", "2", "0", "192", "in-addr", "arpa"), 12, 1, 300, www), rr(ex, 13, 1, 300, cat(cs("PDP-11"), cs("UNIX")))},
		nil)
	// small sections (the reflective renderers print the records of a section of up to four in full): a TXT record
	// of three character-strings, a NULL-ish unknown type, an OPT record with two options
	three := msg(0x7777, cat(www, u16(16), u16(1)),
		[][]byte{rr(www, 16, 1, 60, cat(cs("v=spf1"), cs("include:example.net"), cs("-all")))},
		nil,
		[][]byte{rr([]byte{0}, 41, 1232, 0, cat(u16(10), u16(8), []byte{1, 2, 3, 4, 5, 6, 7, 8}, u16(12), u16(3), []byte{0, 0, 0})), rr(ex, 99, 1, 5, []byte{3, 'a', 'b', 'c'})})
	// compression as real servers write it: the question name at offset 12 holds a label with a literal dot and one with
	// a backslash; owners are pure pointers, record data are literal labels followed by a pointer into the question
	qn := name("ex.ample", "back\\slash", "com") // at offset 12: labels at 12 (8), 21 (10), 32 (3)
	ptr := func(off int) []byte { return []byte{0xc0 | byte(off>>8), byte(off)} }
	four := msg(0x5151, cat(qn, u16(255), u16(1)),
		[][]byte{rr(ptr(12), 5, 1, 60, cat([]byte{3, 'w', 'w', 'w'}, ptr(12))), rr(ptr(12), 15, 1, 60, cat(u16(5), []byte{4, 'm', 'a', 'i', 'l', 2, 'm', 'x'}, ptr(21)))},
		[][]byte{rr(ptr(21), 2, 1, 60, cat([]byte{3, 'n', 's', '1'}, ptr(12)))},
		[][]byte{rr(cat([]byte{4, '_', 's', 'i', 'p'}, ptr(12)), 33, 1, 60, cat(u16(1), u16(2), u16(5060), []byte{3, 's', 'i', 'p'}, ptr(32)))})
	return [][]byte{one, two, three, four}
}

// LongRepeats returns k variants of seed in which a short region (1..32 bytes at a PRNG position) is repeated until the
// input is 4, 16 or 64 KiB long: thousands of consecutive options / records / chunks, the shape on which a loop that
// does not advance, or does work proportional to the rest of the input per element, becomes visible to the CPU budget.
func (c *Corpus) LongRepeats(r *vlib.Rand, seed []byte, k int, maxTotal int) (out [][]byte) {
	if len(seed) < 2 {
		return nil
	}
	for ; k > 0; k-- {
		n := []int{1, 2, 3, 4, 6, 8, 12, 16, 20, 24, 32}[r.Intn(11)]
		i := r.Intn(len(seed))
		if i+n > len(seed) {
			n = len(seed) - i
		}
		total := []int{4096, 16384, 65536, 65536 + 700, 2*65536 + 300}[r.Intn(5)] // the last two cross the 16 bit mark of lengths and offsets
		if total > maxTotal {
			total = maxTotal
		}
		b := append([]byte{}, seed[:i]...)
		for len(b)+n+len(seed)-i-n <= total {
			b = append(b, seed[i:i+n]...)
		}
		b = append(b, seed[i+n:]...)
		out = append(out, b)
	}
	return
}

// WordSweepValues are 16-bit values just below the wrap (a length that some "+4" turns into 0..3), around the sign bit,
// and one past a byte.
var WordSweepValues = []uint16{0xfff8, 0xfffb, 0xfffc, 0xfffd, 0xfffe, 0xffff, 0x7fff, 0x8000, 0x0100}

// WordSweep returns seed with the big-endian 16-bit word at every byte offset below maxPos replaced, in turn, by every
// word sweep value: the systematic form of the "length near the wrap" mutation (arithmetic done in the width of the
// field wraps to a tiny step or size).
func (c *Corpus) WordSweep(seed []byte, maxPos int) (out [][]byte) {
	for p := 0; p+2 <= len(seed) && p < maxPos; p++ {
		for _, v := range WordSweepValues {
			if binary.BigEndian.Uint16(seed[p:]) == v {
				continue
			}
			b := append([]byte{}, seed...)
			binary.BigEndian.PutUint16(b[p:], v)
			out = append(out, b)
		}
	}
	return
}

// WordSweepLong returns variants of seed in which one 16-bit word (every offset below maxPos, both byte orders) holds a
// value just below 65 536 and the input is continued to 66 100 bytes, so that a length check against the available data
// passes and an offset computed from the word in 16 bits wraps.
func (c *Corpus) WordSweepLong(seed []byte, maxPos int) (out [][]byte) {
	if len(seed) < 2 {
		return nil
	}
	const total = 66100
	long := make([]byte, 0, total)
	long = append(long, seed...)
	for len(long) < total {
		long = append(long, seed[:min(len(seed), total-len(long))]...)
	}
	for off := 0; off+2 <= len(seed) && off < maxPos; off++ {
		for _, v := range []uint16{0xfff4, 0xfffa, 0xfffc, 0xfffd, 0xffff} {
			for le := 0; le < 2; le++ {
				b := append(make([]byte, 0, total), long...)
				if le == 1 {
					binary.LittleEndian.PutUint16(b[off:], v)
				} else {
					binary.BigEndian.PutUint16(b[off:], v)
				}
				out = append(out, b)
			}
		}
	}
	return
}

// TextVariants returns, for a seed that is mostly lines of text (SIP and other header-style protocols), the variants a
// line-oriented parser has to survive: each token of each line deleted, each line cut behind each of its separators,
// each line removed, emptied after the colon, or doubled. Nothing is returned for binary seeds.
func (c *Corpus) TextVariants(seed []byte, maxOut int) (out [][]byte) {
	if len(seed) < 8 || len(seed) > 4096 {
		return nil
	}
	printable := 0
	for _, b := range seed {
		if b >= 0x20 && b < 0x7f || b == '\r' || b == '\n' || b == '\t' {
			printable++
		}
	}
	if printable*10 < len(seed)*9 || !bytes.Contains(seed, []byte("\n")) {
		return nil
	}
	lines := bytes.SplitAfter(seed, []byte("\n"))
	join := func(i int, repl ...[]byte) []byte {
		var b []byte
		for j, l := range lines {
			if j == i {
				for _, r := range repl {
					b = append(b, r...)
				}
				continue
			}
			b = append(b, l...)
		}
		return b
	}
	add := func(b []byte) bool {
		out = append(out, b)
		return len(out) < maxOut
	}
	for i, l := range lines {
		if i > 40 {
			break
		}
		body := bytes.TrimRight(l, "\r\n")
		eol := l[len(body):]
		if !add(join(i)) || !add(join(i, l, l)) {
			return
		}
		if k := bytes.IndexByte(body, ':'); k >= 0 {
			if !add(join(i, body[:k+1], eol)) || !add(join(i, body[:k+1], []byte(" "), eol)) {
				return
			}
		}
		// tokens separated by blanks: each one deleted (with the blank in front of it when it is not the first)
		toks := bytes.Fields(body)
		if len(toks) > 1 && len(toks) <= 12 {
			for t := range toks {
				var nb []byte
				for u, tok := range toks {
					if u == t {
						continue
					}
					if len(nb) > 0 {
						nb = append(nb, ' ')
					}
					nb = append(nb, tok...)
				}
				if !add(join(i, nb, eol)) {
					return
				}
			}
		}
		for k, ch := range body {
			if ch == ' ' || ch == ':' || ch == ';' || ch == '=' || ch == ',' || ch == '/' || ch == '<' || ch == '@' {
				if !add(join(i, body[:k], eol)) || !add(join(i, body[:k+1], eol)) {
					return
				}
			}
		}
		if len(eol) == 2 {
			if !add(join(i, body, []byte("\r"))) || !add(join(i, body, []byte("\n"))) {
				return
			}
		}
	}
	return
}

// ByteSweepRel returns variants of seed in which one byte is a little smaller or larger than it was (by 1..8, 12, 16,
// 20, 24): a length, count or offset that ends up just below the fixed size of what it describes, or just above what is
// there - values an absolute sweep over a fixed set does not reach.
func (c *Corpus) ByteSweepRel(seed []byte, maxPos int) (out [][]byte) {
	for p := 0; p < len(seed) && p < maxPos; p++ {
		for _, k := range []int{1, 2, 3, 4, 5, 6, 7, 8, 12, 16, 20, 24} {
			for _, v := range []int{int(seed[p]) - k, int(seed[p]) + k} {
				if v < 0 || v > 255 {
					continue
				}
				b := append([]byte{}, seed...)
				b[p] = byte(v)
				out = append(out, b)
			}
		}
	}
	return
}
