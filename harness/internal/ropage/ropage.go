// Package ropage places an input at the very end of a read-only memory mapping that is followed by an inaccessible
// guard page: any write to the input, and any read past its end (possible through re-slicing within capacity when
// the input is an ordinary sub-slice), faults. With debug.SetPanicOnFault the fault becomes a recoverable panic.
package ropage

import (
	"syscall"
	"unsafe"
)

type Region struct {
	mem   []byte // data pages + one guard page
	data  int    // bytes of data pages
	page  int
	start int // offset of the current input
}

// New maps room for inputs up to maxLen bytes.
func New(maxLen int) (*Region, error) {
	page := syscall.Getpagesize()
	data := (maxLen + page - 1) / page * page
	if data == 0 {
		data = page
	}
	mem, err := syscall.Mmap(-1, 0, data+page, syscall.PROT_READ|syscall.PROT_WRITE, syscall.MAP_ANON|syscall.MAP_PRIVATE)
	if err != nil {
		return nil, err
	}
	if err := syscall.Mprotect(mem[data:], syscall.PROT_NONE); err != nil {
		return nil, err
	}
	return &Region{mem: mem, data: data, page: page}, nil
}

// Place copies b so that it ends exactly at the guard page and makes the data pages read-only. The returned slice has
// len == cap == len(b).
func (r *Region) Place(b []byte) []byte {
	syscall.Mprotect(r.mem[:r.data], syscall.PROT_READ|syscall.PROT_WRITE)
	r.start = r.data - len(b)
	copy(r.mem[r.start:r.data], b)
	syscall.Mprotect(r.mem[:r.data], syscall.PROT_READ)
	return r.mem[r.start:r.data:r.data]
}

// PlaceWithRoom is Place with room bytes of spare capacity behind the input (read-only as well, filled with 0xC3): the
// returned slice has len(b) and cap len(b)+room. An append or re-slice that writes into the caller's spare capacity faults.
func (r *Region) PlaceWithRoom(b []byte, room int) []byte {
	syscall.Mprotect(r.mem[:r.data], syscall.PROT_READ|syscall.PROT_WRITE)
	r.start = r.data - len(b) - room
	copy(r.mem[r.start:], b)
	for i := r.start + len(b); i < r.data; i++ {
		r.mem[i] = 0xC3
	}
	syscall.Mprotect(r.mem[:r.data], syscall.PROT_READ)
	return r.mem[r.start : r.start+len(b) : r.data]
}

// Classify tells what a faulting address means.
func (r *Region) Classify(addr uintptr) string {
	base := uintptr(unsafe.Pointer(&r.mem[0]))
	switch {
	case addr >= base+uintptr(r.data) && addr < base+uintptr(r.data+r.page):
		return "read-beyond-input"
	case addr >= base && addr < base+uintptr(r.data):
		return "write-to-input"
	}
	return "other-fault"
}

func (r *Region) Close() { syscall.Munmap(r.mem) }
