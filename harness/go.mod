module verif/harness

go 1.25.0

require (
	github.com/anishathalye/porcupine v1.3.0
	github.com/gopacket/gopacket v0.0.0
)

replace github.com/gopacket/gopacket => /repo
