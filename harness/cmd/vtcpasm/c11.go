package main

import (
	"fmt"
	"os"
	"time"

	"github.com/gopacket/gopacket/tcpassembly"

	"verif/harness/internal/asm"
	"verif/harness/internal/vlib"
)

func init() {
	vlib.Register("C11", "tcpassembly", c11Classic)
}

var debugC11 = os.Getenv("VDEBUG") != ""

const pageBytes = 1900

func pagesOf(n int) int {
	if n <= 0 {
		return 1
	}
	return (n + pageBytes - 1) / pageBytes
}

type skipRec struct {
	skip int
	seen time.Time
}

func c11Classic(c *vlib.Ctx) {
	n := c.Pick(60, 1200)
	for i := 0; i < n; i++ {
		if !c.Begin(i) {
			continue
		}
		rd := c.Rand(uint64(i))
		p := asm.Params{Conns: rd.Range(5, c.Pick(40, 120)), MaxStream: 6000, Flushes: true, MidFlushAll: rd.Chance(1, 3), NoSYN: 6, CloseProb: 70, Both: true, JitterTS: rd.Chance(1, 3)}
		if rd.Chance(1, 3) {
			p.BigSegs = rd.Bool()
			p.MixSizes = !p.BigSegs
			p.Stall = 2
			p.MaxStream = 20000 // multi-page packets
		}
		p.EarlyFIN = 4
		h := asm.Gen(rd, p)
		switch rd.Intn(9) {
		case 6: // both limits at once: the total must still be enforced on a connection that is under its own limit
			h.PerConnLimit, h.TotalLimit = 6, 8
		case 7:
			h.PerConnLimit, h.TotalLimit = 5, 3
		case 8:
			h.PerConnLimit, h.TotalLimit = 2, 10
		case 0:
			h.PerConnLimit = 1
		case 1:
			h.PerConnLimit = 2
		case 2:
			h.PerConnLimit = 5
		case 3:
			h.TotalLimit = 3
		case 4:
			h.TotalLimit = 10
		}
		r := newRun(c, h)
		r.noContent = h.Features["earlyfin"] // data past a FIN makes the content oracle of C09/C10 meaningless; lifecycle audits still apply
		nviol := 0
		r.viol = func(key, desc string) {
			nviol++
			c.Violation(key, desc, map[string]any{"history_conns": len(h.Conns), "limits": fmt.Sprintf("per-conn=%d total=%d", h.PerConnLimit, h.TotalLimit), "call": r.cc.Call, "history_prefix": prefixOf(h, r.cc.Call)})
		}
		pool := tcpassembly.NewStreamPool(r)
		a := tcpassembly.NewAssembler(pool)
		a.MaxBufferedPagesPerConnection = h.PerConnLimit
		a.MaxBufferedPagesTotal = h.TotalLimit
		var skips []skipRec
		r.onDeliver = func(skip int, seen time.Time) {
			if skip != 0 {
				skips = append(skips, skipRec{skip, seen})
			}
		}
		ageReleased, limitReleased := 0, 0
		prevQueued := map[[2]int]int{} // queued pages per (connection, direction) after the previous call
		audit := func(ev *asm.Ev) {
			snap := tcpassembly.VerifPoolSnapshot(pool)
			used := tcpassembly.VerifPagesUsed(a)
			queued := 0
			for _, v := range snap {
				queued += v.QueuedPages
				if v.Closed {
					r.viol("closed-connection-in-pool", "a closed connection is still in the pool after the call returned: "+v.Key)
				}
			}
			if used != queued {
				r.viol("page-accounting-leak", fmt.Sprintf("pages in use = %d but live connections hold %d queued pages", used, queued))
			}
			switch ev.Kind {
			case asm.EvSeg:
				pk := pagesOf(len(ev.Seg.Data))
				if len(skips) > 0 {
					limitReleased++
					// a gap may be passed over inside Assemble only because a limit is reached: with only the per-connection
					// limit set, what the connection had queued before this packet plus the packet itself must reach it
					if q := prevQueued[[2]int{ev.Seg.Conn, ev.Seg.Dir}]; h.PerConnLimit > 0 && h.TotalLimit == 0 && q+pk < h.PerConnLimit {
						r.viol("limit-release-below-the-limit", fmt.Sprintf("a gap was skipped inside Assemble although the connection had %d pages queued before this %d-page packet, limit %d", q, pk, h.PerConnLimit))
					}
				}
				if h.PerConnLimit > 0 {
					for _, v := range snap {
						if debugC11 {
							if s, ok := v.Stream.(*cstream); ok && s.conn == ev.Seg.Conn && s.dir == ev.Seg.Dir {
								fmt.Printf("L=%d pk=%d queued=%d\n", h.PerConnLimit, pk, v.QueuedPages)
							}
						}
						if s, ok := v.Stream.(*cstream); ok && s.conn == ev.Seg.Conn && s.dir == ev.Seg.Dir && v.QueuedPages > h.PerConnLimit+pk {
							key := "per-connection-limit-exceeded"
							if pk > 1 {
								key += ":multi-page-packet"
							}
							r.viol(key, fmt.Sprintf("connection holds %d out-of-order pages after a %d-page packet, limit %d", v.QueuedPages, pk, h.PerConnLimit))
						}
					}
				}
				if h.TotalLimit > 0 && queued > h.TotalLimit+pk {
					key := "total-limit-exceeded"
					if pk > 1 {
						key += ":multi-page-packet"
					}
					r.viol(key, fmt.Sprintf("%d pages held for out-of-order data after a %d-page packet, total limit %d", queued, pk, h.TotalLimit))
				}
			case asm.EvFlushOlder:
				cut := lt(ev.Cut)
				for _, v := range snap {
					if v.QueuedPages > 0 && v.FirstQueued.Before(cut) {
						r.viol("age-flush-left-old-data-waiting", fmt.Sprintf("after FlushOlderThan(%d) connection %s still waits in front of a page seen at %v", ev.Cut, v.Key, v.FirstQueued.Sub(tBase)))
					}
				}
				for _, s := range skips {
					if !s.seen.Before(cut) {
						r.viol("age-flush-released-newer-data", fmt.Sprintf("FlushOlderThan(%d) skipped a gap (skip=%d) to release data seen at %v, which is not older than the cut-off", ev.Cut, s.skip, s.seen.Sub(tBase)))
					}
				}
				if len(skips) > 0 {
					ageReleased++
				}
			case asm.EvFlushAll:
				if len(snap) != 0 {
					r.viol("connections-left-after-flushall", fmt.Sprintf("%d connections remain in the pool after FlushAll", len(snap)))
				}
				if used != 0 {
					r.viol("pages-in-use-after-flushall", fmt.Sprintf("%d pages in use after FlushAll", used))
				}
				for _, s := range r.streams {
					if s.completed != 1 {
						r.viol("completion-count", fmt.Sprintf("stream %d was completed %d times after FlushAll", s.id, s.completed))
					}
				}
			}
			skips = skips[:0]
			for k := range prevQueued {
				delete(prevQueued, k)
			}
			for _, v := range snap {
				if s, ok := v.Stream.(*cstream); ok {
					prevQueued[[2]int{s.conn, s.dir}] = v.QueuedPages
				}
			}
		}
		if pi := r.play(a, audit); pi != nil {
			c.Violation(pi.Key, "assembler panicked: "+pi.Value, map[string]any{"stack": pi.Stack})
			c.End()
			continue
		}
		c.Count("classic_histories", 1)
		c.Count("classic_api_calls_audited", len(h.Evs))
		c.Count("classic_streams_created", len(r.streams))
		c.Count("classic_age_flushes_that_released_data", ageReleased)
		c.Count("classic_limit_forced_releases", limitReleased)
		if ageReleased > 0 && limitReleased > 0 {
			c.NonTrivial(vlib.Mix(vlib.HashString(h.String()), 10))
		}
		if c.WantSample() {
			s := h.String()
			c.Sample(map[string]any{"package": "tcpassembly", "connections": len(h.Conns), "calls": len(h.Evs), "history_prefix": s[:min(len(s), 800)]})
		}
		c.End()
	}
}

func prefixOf(h *asm.History, call int) string {
	hh := *h
	lo := call - 40
	if lo < 0 {
		lo = 0
	}
	if call+1 <= len(hh.Evs) {
		hh.Evs = hh.Evs[lo : call+1]
	}
	s := hh.String()
	if len(s) > 3000 {
		s = s[len(s)-3000:]
	}
	return s
}
