package main

import (
	"fmt"
	"sort"
	"strings"
	"time"

	"github.com/gopacket/gopacket"
	"github.com/gopacket/gopacket/tcpassembly"

	"verif/harness/internal/asm"
	"verif/harness/internal/sched"
	"verif/harness/internal/vlib"
)

func init() {
	vlib.Register("C12", "sched-tcpassembly", c12Sched)
}

// ---- Mode S: systematic schedules over the lock-free yield points ------------------------------------------------------

type sCall struct {
	flush   int // 0 = packet, 1 = FlushOlderThan(cut), 2 = FlushAll
	p       cpacket
	conn    int
	dir     int
	cut     int64
	relaxed bool
}

// sEvent is one stream event observed during a call.
type sEvent struct {
	kind   byte // 'n' new stream, 'd' data, 'c' completion
	stream int
	key    [3]int // conn, dir, gen of the stream (dir -1: both)
}

type sOp struct {
	g, idx    int
	call, ret int64
	events    []sEvent
	flush     bool
	key       [3]int // key of the packet fed (flush: none)
}

type sFactory struct {
	ctl     *sched.Ctl
	sc      *sScenario
	byKey   map[dirKey][3]int
	streams []*sStream
	curOp   []*sOp   // per goroutine: the call in progress
	log     []sEvent // every stream event in the order it happened
}

type sStream struct {
	asm.StreamMon
	f   *sFactory
	key [3]int
}

func (f *sFactory) ev(kind byte, s *sStream) {
	f.log = append(f.log, sEvent{kind, s.ID, s.key})
	if op := f.curOp[f.ctl.Current()]; op != nil {
		op.events = append(op.events, sEvent{kind, s.ID, s.key})
	}
}

func (f *sFactory) New(netFlow, tcpFlow gopacket.Flow) tcpassembly.Stream {
	cd := f.byKey[dirKey{netFlow, tcpFlow}]
	s := &sStream{f: f, key: cd}
	s.Conn, s.Dir, s.Gen = cd[0], cd[1], cd[2]
	s.Relaxed = cd[2] < 0 || !f.sc.strictDirs[[2]int{cd[0], cd[1]}] // order is only promised for directions fed by one assembler
	s.ID = len(f.streams) + 1
	f.streams = append(f.streams, s)
	f.ev('n', s)
	return s
}

func (s *sStream) Reassembled(rs []tcpassembly.Reassembly) {
	if !s.Enter() {
		return
	}
	defer s.Leave()
	for _, r := range rs {
		s.Data(s.Dir, r.Bytes, r.Skip, r.Start, r.End)
	}
	s.f.ev('d', s)
}

func (s *sStream) ReassemblyComplete() {
	if !s.Enter() {
		return
	}
	defer s.Leave()
	s.Complete()
	s.f.ev('c', s)
}

// sScenario: the calls of every goroutine.
type sScenario struct {
	name       string
	gor        [][]sCall
	nconn      int
	gens       int
	strictDirs map[[2]int]bool // (conn,dir) fed by exactly one goroutine
}

// c12GenScenario builds a small scenario aimed at the windows named in the property.
func c12GenScenario(r *vlib.Rand) *sScenario {
	sc := &sScenario{nconn: r.Range(1, 2), gens: r.Range(1, 2), strictDirs: map[[2]int]bool{}}
	ng := r.Range(2, 3)
	sc.gor = make([][]sCall, ng)
	tmpl := r.Intn(4)
	sc.name = []string{"two-directions", "same-key-two-assemblers", "close-and-recycle", "mixed"}[tmpl]
	var lists [][]sCall
	var owner []int
	for ci := 0; ci < sc.nconn; ci++ {
		for d := 0; d < 2; d++ {
			pk := c12Packets(r.Fork(), ci, d, sc.gens)
			// keep scenarios small: SYN, <= 2 data, FIN per generation is what c12Packets gives with few segments
			var l []sCall
			for _, p := range pk {
				l = append(l, sCall{p: p, conn: ci, dir: d})
			}
			if len(l) > 5*sc.gens {
				l = append(l[:4*sc.gens:4*sc.gens], l[len(l)-1])
			}
			lists = append(lists, l)
			owner = append(owner, r.Intn(ng))
		}
	}
	switch tmpl {
	case 0: // the two directions of connection 0 on two different assemblers
		owner[0], owner[1] = 0, 1
	case 1: // one direction split over two assemblers (both miss the pool for the same key)
		l := lists[0]
		if len(l) >= 2 {
			h := r.Range(1, len(l)-1)
			sc.gor[1] = append(sc.gor[1], l[h:]...)
			lists[0] = l[:h]
			owner[0] = 0
			for i := range sc.gor[1] {
				sc.gor[1][i].relaxed = true
			}
			for i := range lists[0] {
				lists[0][i].relaxed = true
			}
		}
	case 2: // A feeds conn 0, B closes it (its FIN is moved to B), C/B opens another connection that recycles the object
		l := lists[0]
		if len(l) >= 3 {
			fin := l[len(l)-1]
			fin.relaxed = true
			lists[0] = l[:len(l)-1]
			for i := range lists[0] {
				lists[0][i].relaxed = true
			}
			owner[0] = 0
			sc.gor[1] = append(sc.gor[1], fin)
		}
	}
	for i, l := range lists {
		sc.gor[owner[i]] = append(sc.gor[owner[i]], l...)
		if len(l) > 0 && !l[0].relaxed {
			sc.strictDirs[[2]int{l[0].conn, l[0].dir}] = true
		}
	}
	// interleave each goroutine's lists while keeping per-direction order: a stable shuffle by direction
	for g := range sc.gor {
		sc.gor[g] = sInterleave(r, sc.gor[g])
	}
	if r.Chance(1, 2) { // the concurrent flusher
		var fl []sCall
		for k := 0; k < r.Range(1, 3); k++ {
			if r.Chance(1, 3) {
				fl = append(fl, sCall{flush: 2})
			} else {
				fl = append(fl, sCall{flush: 1, cut: int64(r.Intn(20))})
			}
		}
		sc.gor = append(sc.gor, fl)
		sc.name += "+flusher"
	}
	return sc
}

func sInterleave(r *vlib.Rand, calls []sCall) []sCall {
	by := map[[2]int][]sCall{}
	var keys [][2]int
	for _, c := range calls {
		k := [2]int{c.conn, c.dir}
		if _, ok := by[k]; !ok {
			keys = append(keys, k)
		}
		by[k] = append(by[k], c)
	}
	var out []sCall
	for len(out) < len(calls) {
		k := keys[r.Intn(len(keys))]
		if len(by[k]) == 0 {
			continue
		}
		out = append(out, by[k][0])
		by[k] = by[k][1:]
	}
	return out
}

// sExplorer enumerates schedules depth first with a preemption bound, or samples them.
type sExplorer struct {
	prefix []int
	alts   []int
	pre    []bool // whether choosing index != 0 at that step is a preemption
	bound  int
	rnd    *vlib.Rand
	done   bool
}

func (e *sExplorer) chooser() sched.Chooser {
	e.alts, e.pre = e.alts[:0], e.pre[:0]
	return func(step int, runnable []int, last int) int {
		// index 0 = keep running the last goroutine when it still can (no preemption)
		ord := append([]int{}, runnable...)
		lastRunnable := false
		for i, g := range ord {
			if g == last {
				ord[0], ord[i] = ord[i], ord[0]
				lastRunnable = true
			}
		}
		if len(ord) > 2 {
			sort.Ints(ord[1:])
		}
		e.alts = append(e.alts, len(ord))
		e.pre = append(e.pre, lastRunnable)
		if e.rnd != nil {
			if lastRunnable && e.rnd.Chance(3, 5) {
				return ord[0]
			}
			return ord[e.rnd.Intn(len(ord))]
		}
		if step < len(e.prefix) && e.prefix[step] < len(ord) {
			return ord[e.prefix[step]]
		}
		return ord[0]
	}
}

// next advances to the next schedule of the DFS; false when the space is exhausted.
func (e *sExplorer) next() bool {
	// extend prefix with zeros up to the run length, then increment from the deepest position
	p := make([]int, len(e.alts))
	copy(p, e.prefix)
	for i := len(p) - 1; i >= 0; i-- {
		if p[i]+1 < e.alts[i] {
			cand := append(append([]int{}, p[:i]...), p[i]+1)
			n := 0
			for j, v := range cand {
				if v != 0 && e.pre[j] {
					n++
				}
			}
			if n <= e.bound {
				e.prefix = cand
				return true
			}
		}
	}
	return false
}

type sEnv struct {
	f    *sFactory
	pool *tcpassembly.StreamPool
	asms []*tcpassembly.Assembler
	ea   *tcpassembly.Assembler
}

func c12NewEnv(sc *sScenario) *sEnv {
	f := &sFactory{byKey: map[dirKey][3]int{}, sc: sc}
	for ci := 0; ci < sc.nconn; ci++ {
		for g := 0; g < sc.gens; g++ {
			k0, k1 := c12Key(ci, g)
			gg := g
			if ci == 0 {
				gg = -1
			}
			f.byKey[k0], f.byKey[k1] = [3]int{ci, 0, gg}, [3]int{ci, 1, gg}
		}
	}
	env := &sEnv{f: f, pool: tcpassembly.NewStreamPool(f)}
	for range sc.gor {
		env.asms = append(env.asms, tcpassembly.NewAssembler(env.pool))
	}
	env.ea = tcpassembly.NewAssembler(env.pool)
	return env
}

// c12RunSchedule runs the scenario once under the explorer's next schedule. The pool and the assemblers are reused
// from schedule to schedule (the final FlushAll of each run empties the pool), so connection objects recycled from
// earlier runs are in the free list - which is exactly the state the stale-pointer windows need.
func c12RunSchedule(c *vlib.Ctx, sc *sScenario, env *sEnv, ex *sExplorer) (steps int, violated bool) {
	f, pool := env.f, env.pool
	f.streams, f.log = nil, nil
	ng := len(sc.gor)
	ctl := sched.New(ng)
	f.ctl = ctl
	f.curOp = make([]*sOp, ng)
	tcpassembly.SetVerifYield(ctl.Yield)
	defer tcpassembly.SetVerifYield(nil)
	var ops []*sOp
	panics := make([]*vlib.PanicInfo, ng)
	for g := 0; g < ng; g++ {
		g := g
		ctl.Go(g, func() {
			a := env.asms[g]
			panics[g] = vlib.Guard(func() {
				for i, call := range sc.gor[g] {
					op := &sOp{g: g, idx: i, call: int64(ctl.Steps), flush: call.flush != 0}
					f.curOp[g] = op
					ops = append(ops, op)
					switch call.flush {
					case 0:
						a.AssembleWithTimestamp(call.p.nf, call.p.t, call.p.ts)
					case 1:
						a.FlushOlderThan(lt(call.cut))
					case 2:
						a.FlushAll()
					}
					op.ret = int64(ctl.Steps)
					f.curOp[g] = nil
					ctl.Yield("between-calls") // call boundaries are scheduling points too
				}
			})
		})
	}
	dl := ctl.Run(ex.chooser())
	th := uint64(len(ctl.Trace))
	pre := 0
	for i, g := range ctl.Trace {
		th = vlib.Mix(th, uint64(g))
		if i > 0 && g != ctl.Trace[i-1] {
			pre++
		}
	}
	if pre >= 2 {
		c.NonTrivial(vlib.Mix(th, vlib.HashString(fmt.Sprint(sDescribe(sc)))))
	}
	detail := func() map[string]any {
		return map[string]any{"scenario": sc.name, "schedule": fmt.Sprint(ctl.Trace), "calls": sDescribe(sc)}
	}
	if strings.HasPrefix(dl, "INCONCLUSIVE") {
		c.Inconclusive(dl)
		return ctl.Steps, false
	}
	if dl != "" {
		c.Violation("deadlock:tcpassembly:sched", "a goroutine blocked forever under a controlled schedule", map[string]any{"scenario": sc.name, "detail": dl})
		return ctl.Steps, true
	}
	for g, pi := range panics {
		if pi != nil {
			c.Violation(pi.Key, fmt.Sprintf("panic in goroutine %d under schedule %v: %s", g, ctl.Trace, pi.Value), detail())
			violated = true
		}
	}
	// single-threaded epilogue
	tcpassembly.SetVerifYield(nil)
	ea := env.ea
	if pi := vlib.Guard(func() { ea.FlushAll() }); pi != nil {
		c.Violation(pi.Key, "panic in the final FlushAll: "+pi.Value, detail())
		violated = true
	}
	if left := tcpassembly.VerifPoolSnapshot(pool); len(left) != 0 {
		c.Violation("connections-left-after-flushall:tcpassembly", fmt.Sprintf("%d connections remain after the final FlushAll", len(left)), detail())
		violated = true
	}
	for _, s := range f.streams {
		for _, b := range s.Bad {
			p := strings.SplitN(b, "\x00", 2)
			c.Violation(p[0]+":tcpassembly", p[1], detail())
			violated = true
		}
		if s.Callbacks > 0 && s.Completed != 1 {
			c.Violation("completion-count:tcpassembly", fmt.Sprintf("stream %d was completed %d times", s.ID, s.Completed), detail())
			violated = true
		}
	}
	// single live entry per key: the callbacks are totally ordered in this mode (one goroutine runs at a time); the same
	// porcupine model as in the stress mode decides
	var evs []asm.LiveEv
	for _, e := range f.log {
		if e.kind != 'n' {
			evs = append(evs, asm.LiveEv{Key: e.key, Stream: e.stream, Kind: e.kind, T0: int64(2 * len(evs)), T1: int64(2*len(evs) + 1)})
		}
	}
	if key, desc := asm.CheckSingleLiveStream(evs, 20*time.Second); key == "unknown" {
		c.Inconclusive(desc)
	} else if key != "" {
		c.Violation(key+":tcpassembly", desc, detail())
		violated = true
	}
	c.Count("callback_events_checked_by_porcupine", len(evs))
	return ctl.Steps, violated
}

func sDescribe(sc *sScenario) []string {
	var out []string
	for g, l := range sc.gor {
		s := fmt.Sprintf("g%d:", g)
		for _, c := range l {
			switch c.flush {
			case 1:
				s += fmt.Sprintf(" FlushOlder(%d)", c.cut)
			case 2:
				s += " FlushAll"
			default:
				fl := ""
				if c.p.t.SYN {
					fl = "S"
				}
				if c.p.t.FIN {
					fl += "F"
				}
				s += fmt.Sprintf(" c%dd%d[%d]%s", c.conn, c.dir, len(c.p.t.Payload), fl)
			}
		}
		out = append(out, s)
	}
	return out
}

func c12Sched(c *vlib.Ctx) {
	nscen := c.Pick(40, 400)
	c.SetBudget(900, 3<<30)
	for i := 0; i < nscen; i++ {
		if !c.Begin(i) {
			continue
		}
		r := c.Rand(uint64(i))
		sc := c12GenScenario(r)
		// DFS with a preemption bound, capped; then PRNG-sampled schedules
		ex := &sExplorer{bound: c.Pick(2, 3)}
		env := c12NewEnv(sc)
		maxRuns := c.Pick(300, 3000)
		runs := 0
		stop := false
		for !stop && runs < maxRuns {
			steps, bad := c12RunSchedule(c, sc, env, ex)
			_ = steps
			runs++
			if bad {
				break
			}
			if !ex.next() {
				c.Count("scenarios_with_exhausted_bounded_dfs", 1)
				break
			}
		}
		c.Count("dfs_schedules_tcpassembly", runs)
		ex2 := &sExplorer{rnd: r.Fork()}
		for k := 0; k < c.Pick(100, 1000); k++ {
			_, bad := c12RunSchedule(c, sc, env, ex2)
			runs++
			if bad {
				break
			}
		}
		c.Count("schedules_tcpassembly", runs)
		c.Count("sched_scenarios_tcpassembly", 1)
		c.CountIn("sched_scenario_kinds", sc.name, 1)
		c.Evals(runs - 1)
		if c.WantSample() {
			c.Sample(map[string]any{"package": "tcpassembly", "scenario": sc.name, "calls": sDescribe(sc), "schedules_run": runs})
		}
		c.End()
	}
}
