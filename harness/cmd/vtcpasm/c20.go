package main

import (
	"bytes"
	"fmt"
	"io"
	"runtime"
	"strings"
	"sync"
	"time"

	"github.com/gopacket/gopacket"
	"github.com/gopacket/gopacket/tcpassembly"
	"github.com/gopacket/gopacket/tcpassembly/tcpreader"

	"verif/harness/internal/asm"
	"verif/harness/internal/vlib"
)

func init() {
	vlib.Register("C20", "enum", c20Enum)
	vlib.Register("C20", "assembler", c20Assembler)
}

// ---- scenario = delivery script x consumer script -----------------------------------------------------------------

type c20Entry struct {
	n    int // bytes
	skip int
}

type c20Consumer struct {
	reads []int // sizes of the leading reads
	end   int   // 0 drain with 1-byte reads, 1 drain with 4096, 2 close, 3 close then read, 4 close twice, 5 close then drain, 6 DiscardBytesToEOF, 7 DiscardBytesToFirstError until EOF
	loss  bool
}

type c20Result struct {
	got       []byte
	errs      []error // per read
	ns        []int
	dataLost  int
	eofAt     int // index of read that returned EOF (-1)
	panicked  *vlib.PanicInfo
	closedErr error
	// ends 6 and 7: bytes the library's discard helper reports, which together with the bytes read before must be all
	discarded  int
	usedHelper bool
}

func (cs c20Consumer) String() string {
	return fmt.Sprintf("reads=%v end=%s loss=%v", cs.reads, []string{"drain(1)", "drain(4096)", "Close", "Close+Read", "Close+Close", "Close+drain", "DiscardBytesToEOF", "DiscardBytesToFirstError*"}[cs.end], cs.loss)
}

// runScenario executes one scenario; it returns "" or a violation key and description.
type c20Leak struct{ deadlocks, leaked int }

func c20Run(batches [][]c20Entry, cs c20Consumer, lk *c20Leak) (key, desc string) {
	rs := tcpreader.NewReaderStream()
	rs.LossErrors = cs.loss
	// the bytes of entry e of batch b are distinct so that misplaced bytes show
	var want []byte
	var deliver [][]tcpassembly.Reassembly
	wantLost := 0
	cnt := byte(1)
	for _, b := range batches {
		var rb []tcpassembly.Reassembly
		for _, e := range b {
			bs := make([]byte, e.n)
			for i := range bs {
				bs[i] = cnt
				cnt++
			}
			want = append(want, bs...)
			rb = append(rb, tcpassembly.Reassembly{Bytes: bs, Skip: e.skip})
			if e.skip != 0 && e.n > 0 {
				wantLost++
			}
		}
		deliver = append(deliver, rb)
	}
	asmDone := make(chan *vlib.PanicInfo, 1)
	conDone := make(chan c20Result, 1)
	completed := make(chan struct{})
	go func() { // the assembler side: exactly what tcpassembly does with a stream
		asmDone <- vlib.Guard(func() {
			for _, rb := range deliver {
				rs.Reassembled(rb)
			}
			close(completed)
			rs.ReassemblyComplete()
		})
	}()
	go func() {
		var res c20Result
		res.eofAt = -1
		res.panicked = vlib.Guard(func() {
			rd := func(n int) bool {
				buf := make([]byte, n)
				k, err := rs.Read(buf)
				res.got = append(res.got, buf[:k]...)
				res.errs = append(res.errs, err)
				res.ns = append(res.ns, k)
				if err == tcpreader.DataLost {
					res.dataLost++
				}
				if err == io.EOF && res.eofAt < 0 {
					res.eofAt = len(res.errs) - 1
					select {
					case <-completed:
					default:
						res.closedErr = fmt.Errorf("EOF before completion")
					}
				}
				return err == io.EOF
			}
			eof := false
			for _, n := range cs.reads {
				if eof = rd(n); eof {
					break
				}
			}
			drain := func(n int) {
				for i := 0; i < 10000 && !eof; i++ {
					eof = rd(n)
				}
			}
			switch cs.end {
			case 0:
				drain(1)
			case 1:
				drain(4096)
			case 2:
				rs.Close()
			case 3:
				rs.Close()
				rd(7)
			case 4:
				rs.Close()
				rs.Close()
			case 5:
				rs.Close()
				drain(3)
			case 6:
				// the package's own helper for consumers that lose interest: it must read on to the end of the stream
				res.discarded = tcpreader.DiscardBytesToEOF(&rs)
				res.usedHelper = true
			case 7:
				for i := 0; i < 10000; i++ {
					n, err := tcpreader.DiscardBytesToFirstError(&rs)
					res.discarded += n
					if err == io.EOF {
						break
					}
				}
				res.usedHelper = true
			}
		})
		conDone <- res
	}()
	// both goroutines must finish. The timer only decides when to look; the verdict comes from a goroutine snapshot.
	var res c20Result
	var api *vlib.PanicInfo
	gotA, gotC := false, false
	wait := 300 * time.Millisecond
	for !(gotA && gotC) {
		select {
		case api = <-asmDone:
			gotA = true
		case res = <-conDone:
			gotC = true
		case <-time.After(wait):
			buf := make([]byte, 1<<18)
			snap := string(buf[:runtime.Stack(buf, true)])
			blocked := 0
			for _, g := range strings.Split(snap, "\n\n") {
				if strings.Contains(g, "tcpreader.(*ReaderStream)") && (strings.Contains(g, "[chan receive") || strings.Contains(g, "[chan send")) {
					blocked++
				}
			}
			need := 0
			if !gotA {
				need++
			}
			if !gotC {
				need++
			}
			// goroutines of earlier deadlocked scenarios stay parked forever: discount them
			if blocked-lk.leaked >= need && need > 0 {
				// every unfinished party is parked on one of the stream's channels and nobody else can touch them
				lk.deadlocks++
				lk.leaked += need
				who := "assembler and consumer"
				if gotA {
					who = "consumer"
				} else if gotC {
					who = "assembler"
				}
				return "deadlock", fmt.Sprintf("%s blocked forever on the reader stream's channels", who)
			}
			wait *= 2
			if wait > 20*time.Second {
				return "inconclusive", "scenario did not finish and the snapshot does not prove a deadlock"
			}
		}
	}
	if api != nil {
		return api.Key, "assembler side panicked: " + api.Value
	}
	if res.panicked != nil {
		return res.panicked.Key, "consumer side panicked: " + res.panicked.Value
	}
	if res.closedErr != nil {
		return "eof-before-completion", "Read returned EOF before ReassemblyComplete was called"
	}
	// bytes returned (up to Close/EOF) must be the prefix of the concatenation
	if !bytes.HasPrefix(want, res.got) {
		return "bytes-differ", fmt.Sprintf("read %x, delivered %x", res.got, want)
	}
	if res.usedHelper && len(res.got)+res.discarded != len(want) {
		return "discard-helper-stops-early", fmt.Sprintf("%d bytes read + %d discarded by the helper, the assembler delivered %d", len(res.got), res.discarded, len(want))
	}
	if cs.end <= 1 {
		if !bytes.Equal(want, res.got) {
			return "bytes-missing-at-eof", fmt.Sprintf("drained to EOF but read only %d of %d bytes", len(res.got), len(want))
		}
		if res.eofAt < 0 {
			return "no-eof", "reader never returned EOF"
		}
		if cs.loss && res.dataLost != wantLost {
			return "loss-report-count", fmt.Sprintf("%d DataLost errors for %d gaps followed by data", res.dataLost, wantLost)
		}
	}
	if !cs.loss && res.dataLost != 0 {
		return "loss-reported-unasked", "DataLost returned although LossErrors is off"
	}
	for i, e := range res.errs {
		if e != nil && e != io.EOF && e != tcpreader.DataLost {
			return "unexpected-error", fmt.Sprintf("read %d returned %v", i, e)
		}
		if e != nil && res.ns[i] != 0 {
			return "bytes-with-error", fmt.Sprintf("read %d returned %d bytes together with %v", i, res.ns[i], e)
		}
	}
	if (cs.end == 3 || cs.end == 5) && len(res.errs) > 0 && res.errs[len(res.errs)-1] != io.EOF {
		return "read-after-close", "Read after Close did not return EOF"
	}
	return "", ""
}

func c20Deliveries(maxBatches int) [][][]c20Entry {
	var entries []c20Entry
	for _, n := range []int{0, 1, 5} {
		for _, s := range []int{0, 3} {
			entries = append(entries, c20Entry{n, s})
		}
	}
	var batches [][]c20Entry
	for _, a := range entries {
		batches = append(batches, []c20Entry{a})
		for _, b := range entries {
			batches = append(batches, []c20Entry{a, b})
		}
	}
	out := [][][]c20Entry{{}} // no batch at all: completion only
	for _, a := range batches {
		out = append(out, [][]c20Entry{a})
		for _, b := range batches {
			out = append(out, [][]c20Entry{a, b})
		}
	}
	if maxBatches >= 3 {
		for _, a := range entries {
			for _, b := range entries {
				for _, c := range entries {
					out = append(out, [][]c20Entry{{a}, {b}, {c}})
				}
			}
		}
	}
	return out
}

func c20Consumers(maxReads int, sizes []int) []c20Consumer {
	var out []c20Consumer
	var rec func(prefix []int)
	rec = func(prefix []int) {
		for end := 0; end <= 7; end++ {
			for _, loss := range []bool{false, true} {
				out = append(out, c20Consumer{reads: append([]int{}, prefix...), end: end, loss: loss})
			}
		}
		if len(prefix) >= maxReads {
			return
		}
		for _, s := range sizes {
			rec(append(prefix, s))
		}
	}
	rec(nil)
	return out
}

func c20Enum(c *vlib.Ctx) {
	dels := c20Deliveries(3)
	cons := c20Consumers(c.Pick(2, 4), []int{0, 1, 3, 7, 64})
	if c.Quick() {
		cons = c20Consumers(3, []int{0, 1, 7})
	}
	lk := &c20Leak{}
	c.SetBudget(600, 3<<30)
	for di, d := range dels {
		if di%c.NBatch != c.Batch || !c.Begin(di) {
			continue
		}
		nviol := 0
		for _, cs := range cons {
			key, desc := c20Run(d, cs, lk)
			c.Evals(1)
			if key == "inconclusive" {
				c.Inconclusive(desc)
				continue
			}
			if key != "" {
				kk := key
				if key == "deadlock" {
					// what distinguishes deadlock scenarios: where Close was called
					switch {
					case cs.end >= 2 && len(cs.reads) == 0:
						kk += ":close-before-first-read"
					case cs.end >= 2:
						kk += ":close-after-read"
					default:
						kk += ":while-reading"
					}
				}
				c.Violation(kk, desc, map[string]any{"batches": fmt.Sprint(d), "consumer": cs.String()})
				nviol++
			}
			if len(d) >= 2 && len(cs.reads) >= 1 {
				c.NonTrivial(vlib.Mix(uint64(di), vlib.HashString(cs.String())))
			}
			if lk.deadlocks > 40 {
				break // enough witnesses; every further one costs a timer interval
			}
		}
		c.Count("scenarios_enumerated", len(cons))
		if c.WantSample() && len(d) >= 2 {
			c.Sample(map[string]any{"batches(bytes,skip)": fmt.Sprint(d), "consumer": cons[len(cons)/2].String()})
		}
		c.End()
		if lk.deadlocks > 40 {
			break
		}
	}
	c.Count("deadlocks_detected_by_snapshot", lk.deadlocks)
}

// ---- end to end through a real Assembler -------------------------------------------------------------------------------

type c20Stream struct {
	tcpreader.ReaderStream
	mu        sync.Mutex
	delivered []byte // concatenation of what the assembler handed over (recorded before the hand-over)
	gaps      int
	done      chan c20Result
}

func (s *c20Stream) Reassembled(rs []tcpassembly.Reassembly) {
	s.mu.Lock()
	for _, r := range rs {
		s.delivered = append(s.delivered, r.Bytes...)
		if r.Skip != 0 && len(r.Bytes) > 0 {
			s.gaps++
		}
	}
	s.mu.Unlock()
	s.ReaderStream.Reassembled(rs)
}

type c20Factory struct {
	r       *vlib.Rand
	mu      sync.Mutex
	streams []*c20Stream
	closeAt []int
}

func (f *c20Factory) New(a, b gopacket.Flow) tcpassembly.Stream {
	s := &c20Stream{ReaderStream: tcpreader.NewReaderStream(), done: make(chan c20Result, 1)}
	f.mu.Lock()
	s.LossErrors = f.r.Bool()
	closeAfter := -1
	if f.r.Chance(1, 3) {
		closeAfter = f.r.Intn(30)
	}
	sizes := []int{1, 2, 3, 7, 64, 4096}
	sz := sizes[f.r.Intn(len(sizes))]
	f.streams = append(f.streams, s)
	f.mu.Unlock()
	go func() {
		var res c20Result
		res.eofAt = -1
		res.panicked = vlib.Guard(func() {
			buf := make([]byte, sz)
			for i := 0; ; i++ {
				if closeAfter >= 0 && i == closeAfter {
					s.Close()
					res.closedErr = io.ErrClosedPipe
					return
				}
				n, err := s.Read(buf)
				res.got = append(res.got, buf[:n]...)
				if err == tcpreader.DataLost {
					res.dataLost++
				} else if err == io.EOF {
					res.eofAt = i
					return
				} else if err != nil {
					res.errs = append(res.errs, err)
					return
				}
			}
		})
		s.done <- res
	}()
	return s
}

func c20Assembler(c *vlib.Ctx) {
	n := c.Pick(300, 6000)
	for i := 0; i < n; i++ {
		if !c.Begin(i) {
			continue
		}
		rd := c.Rand(uint64(i))
		p := asm.Params{Conns: rd.Range(1, 3), MaxStream: 3000, Flushes: rd.Bool(), NoSYN: 8, CloseProb: 60, Both: true, Stall: 5}
		h := asm.Gen(rd, p)
		if rd.Chance(1, 3) {
			h.PerConnLimit = []int{1, 2, 5}[rd.Intn(3)]
		}
		f := &c20Factory{r: rd.Fork()}
		pool := tcpassembly.NewStreamPool(f)
		a := tcpassembly.NewAssembler(pool)
		a.MaxBufferedPagesPerConnection = h.PerConnLimit
		finished := make(chan *vlib.PanicInfo, 1)
		go func() {
			finished <- vlib.Guard(func() {
				for k := range h.Evs {
					ev := &h.Evs[k]
					switch ev.Kind {
					case asm.EvSeg:
						nf, t := mkTCP(&h.Conns[ev.Seg.Conn], &ev.Seg)
						a.AssembleWithTimestamp(nf, t, lt(ev.TS))
					case asm.EvFlushOlder:
						a.FlushOlderThan(lt(ev.Cut))
					case asm.EvFlushAll:
						a.FlushAll()
					}
				}
			})
		}()
		var pi *vlib.PanicInfo
		stuck := false
		wait := 2 * time.Second
	loop:
		for {
			select {
			case pi = <-finished:
				break loop
			case <-time.After(wait):
				buf := make([]byte, 1<<20)
				snap := string(buf[:runtime.Stack(buf, true)])
				if strings.Contains(snap, "tcpreader.(*ReaderStream).Reassembled") && strings.Contains(snap, "[chan receive") && !strings.Contains(snap, "[running]:\ngithub.com/gopacket") && !strings.Contains(snap, "[runnable]") {
					c.Violation("deadlock:assembler-wedged", "the assembler goroutine is parked in ReaderStream.Reassembled and no consumer can release it", map[string]any{"goroutines": snap[:min(len(snap), 12000)], "history": h.String()[:min(len(h.String()), 1500)]})
					stuck = true
					break loop
				}
				wait *= 2
				if wait > 60*time.Second {
					c.Inconclusive("assembler did not finish; snapshot does not prove a deadlock")
					stuck = true
					break loop
				}
			}
		}
		if stuck {
			c.End()
			return // parked goroutines stay behind; one witness is enough for this child
		}
		if pi != nil {
			c.Violation(pi.Key, "assembler panicked with reader streams: "+pi.Value, map[string]any{"stack": pi.Stack})
			c.End()
			continue
		}
		for _, s := range f.streams {
			select {
			case res := <-s.done:
				s.mu.Lock()
				want := s.delivered
				gaps := s.gaps
				s.mu.Unlock()
				switch {
				case res.panicked != nil:
					c.Violation(res.panicked.Key, "consumer panicked: "+res.panicked.Value, nil)
				case len(res.errs) > 0:
					c.Violation("unexpected-error", fmt.Sprint(res.errs[0]), nil)
				case res.closedErr == nil && !bytes.Equal(res.got, want):
					c.Violation("bytes-differ", fmt.Sprintf("consumer read %d bytes, the assembler delivered %d (first difference at %d)", len(res.got), len(want), firstDiffB(res.got, want)), map[string]any{"history": h.String()[:min(len(h.String()), 1500)]})
				case res.closedErr != nil && !bytes.HasPrefix(want, res.got):
					c.Violation("bytes-differ", "bytes read before Close are not a prefix of the delivered bytes", nil)
				case res.closedErr == nil && s.LossErrors && res.dataLost != gaps:
					c.Violation("loss-report-count", fmt.Sprintf("%d DataLost errors for %d gaps followed by data", res.dataLost, gaps), nil)
				}
				if res.closedErr != nil {
					c.Count("streams_closed_by_consumer", 1)
				} else {
					c.Count("streams_read_to_eof", 1)
				}
				c.Count("bytes_read_through_reader", len(res.got))
			case <-time.After(20 * time.Second):
				c.Violation("deadlock:consumer-never-finished", "a consumer goroutine did not finish after the final FlushAll completed its stream", nil)
			}
		}
		if h.Features["ooo"] {
			c.NonTrivial(vlib.HashString(h.String()))
		}
		c.End()
	}
}

func firstDiffB(a, b []byte) int {
	for i := 0; i < len(a) && i < len(b); i++ {
		if a[i] != b[i] {
			return i
		}
	}
	if len(a) < len(b) {
		return len(a)
	}
	return len(b)
}
