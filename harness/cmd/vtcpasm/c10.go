package main

import (
	"fmt"
	"time"

	"github.com/gopacket/gopacket"
	"github.com/gopacket/gopacket/layers"
	"github.com/gopacket/gopacket/tcpassembly"

	"verif/harness/internal/asm"
	"verif/harness/internal/vlib"
)

func init() {
	vlib.Register("C10", "random", c10Random)
	vlib.Register("C10", "perm", c10Perm)
}

var tBase = time.Unix(1_600_000_000, 0)

func lt(ts int64) time.Time { return tBase.Add(time.Duration(ts) * time.Second) }

type dirKey [2]gopacket.Flow

// run is the harness state of one history on the classic assembler.
type run struct {
	c       *vlib.Ctx
	h       *asm.History
	byKey   map[dirKey][2]int // -> (conn, dir)
	logs    map[[2]int]*asm.FeedLog
	cc      asm.CallCtx
	streams []*cstream
	viol    func(key, desc string)
	// lifecycle (C11)
	inCallback int
	onDeliver  func(skip int, seen time.Time)
	noContent  bool
}

type cstream struct {
	r             *run
	id            int
	conn, dir     int
	chk           *asm.DirChecker
	completed     int
	deliveries    int
	afterComplete bool
}

func (r *run) New(netFlow, tcpFlow gopacket.Flow) tcpassembly.Stream {
	cd, ok := r.byKey[dirKey{netFlow, tcpFlow}]
	s := &cstream{r: r, id: len(r.streams), conn: -1}
	if ok {
		s.conn, s.dir = cd[0], cd[1]
	}
	if ok && !r.noContent {
		s.chk = asm.NewDirChecker(r.h.Conns[s.conn].S[s.dir], r.logs[cd], r.cc.Call)
	}
	r.streams = append(r.streams, s)
	return s
}

func (s *cstream) Reassembled(rs []tcpassembly.Reassembly) {
	if s.completed > 0 {
		s.r.viol("data-after-completion", fmt.Sprintf("stream %d received data after ReassemblyComplete", s.id))
	}
	for _, x := range rs {
		s.deliveries++
		if s.r.onDeliver != nil {
			s.r.onDeliver(x.Skip, x.Seen)
		}
		if s.chk == nil {
			continue
		}
		if key, desc := s.chk.Deliver(s.r.cc, x.Skip, x.Start, x.End, 0, x.Bytes, false); key != "" {
			s.r.viol(key, fmt.Sprintf("conn %d dir %d: %s", s.conn, s.dir, desc))
		}
	}
}

func (s *cstream) ReassemblyComplete() {
	s.completed++
	if s.completed > 1 {
		s.r.viol("completed-twice", fmt.Sprintf("stream %d completed %d times", s.id, s.completed))
	}
	if s.chk != nil {
		s.chk.Complete(s.r.cc.Call)
	}
}

func newRun(c *vlib.Ctx, h *asm.History) *run {
	r := &run{c: c, h: h, byKey: map[dirKey][2]int{}, logs: map[[2]int]*asm.FeedLog{}}
	for ci, cn := range h.Conns {
		nf := gopacket.NewFlow(layers.EndpointIPv4, cn.SrcIP[:], cn.DstIP[:])
		tf := gopacket.NewFlow(layers.EndpointTCPPort, []byte{byte(cn.SrcPort >> 8), byte(cn.SrcPort)}, []byte{byte(cn.DstPort >> 8), byte(cn.DstPort)})
		r.byKey[dirKey{nf, tf}] = [2]int{ci, 0}
		r.byKey[dirKey{nf.Reverse(), tf.Reverse()}] = [2]int{ci, 1}
		r.logs[[2]int{ci, 0}] = &asm.FeedLog{}
		r.logs[[2]int{ci, 1}] = &asm.FeedLog{}
	}
	return r
}

func mkTCP(cn *asm.Conn, sg *asm.Seg) (gopacket.Flow, *layers.TCP) {
	src, dst, sp, dp := cn.SrcIP[:], cn.DstIP[:], cn.SrcPort, cn.DstPort
	if sg.Dir == 1 {
		src, dst, sp, dp = dst, src, dp, sp
	}
	t := &layers.TCP{SrcPort: layers.TCPPort(sp), DstPort: layers.TCPPort(dp), Seq: sg.Seq, SYN: sg.SYN, FIN: sg.FIN, RST: sg.RST, ACK: !sg.SYN}
	t.Payload = sg.Data
	t.SetInternalPortsForTesting()
	return gopacket.NewFlow(layers.EndpointIPv4, src, dst), t
}

// play feeds the history to one assembler and runs the cursor oracle online. after is called after every API call.
func (r *run) play(a *tcpassembly.Assembler, after func(ev *asm.Ev)) (pi *vlib.PanicInfo) {
	limit := r.h.PerConnLimit > 0 || r.h.TotalLimit > 0
	for i := range r.h.Evs {
		ev := &r.h.Evs[i]
		r.cc = asm.CallCtx{Call: i, Flush: ev.Kind != asm.EvSeg, LimitConfigured: limit, PerConn: r.h.PerConnLimit, Total: r.h.TotalLimit}
		pi = vlib.Guard(func() {
			switch ev.Kind {
			case asm.EvSeg:
				sg := &ev.Seg
				r.logs[[2]int{sg.Conn, sg.Dir}].Add(i, sg.Off, len(sg.Data), sg.SYN)
				nf, t := mkTCP(&r.h.Conns[sg.Conn], sg)
				a.AssembleWithTimestamp(nf, t, lt(ev.TS))
			case asm.EvFlushOlder:
				a.FlushOlderThan(lt(ev.Cut))
			case asm.EvFlushAll:
				a.FlushAll()
			}
		})
		if pi != nil {
			return pi
		}
		if after != nil {
			after(ev)
		}
	}
	return nil
}

func (r *run) finals() {
	for _, s := range r.streams {
		if s.chk != nil {
			if key, desc := s.chk.Final(); key != "" {
				r.viol(key, fmt.Sprintf("conn %d dir %d: %s", s.conn, s.dir, desc))
			}
		}
		if s.completed != 1 {
			r.viol("completion-count", fmt.Sprintf("stream %d was completed %d times after the final FlushAll", s.id, s.completed))
		}
	}
}

type c10Factory struct{ cur *run }

func (f *c10Factory) New(a, b gopacket.Flow) tcpassembly.Stream { return f.cur.New(a, b) }

type c10SharedAsm struct {
	f *c10Factory
	a *tcpassembly.Assembler
}

var c10Shared = map[[2]int]*c10SharedAsm{}
var c10HistoryNo int

func runHistory10(c *vlib.Ctx, h *asm.History) {
	c.Step()
	r := newRun(c, h)
	r.viol = func(key, desc string) { c.Violation(key, desc, map[string]any{"history": h.String()}) }
	// every other history runs on a pool and assembler that earlier histories with the same limits have used (each history
	// ends with FlushAll, so the pool is empty again): connection objects and pages are recycled ones, with whatever
	// state a close left in them
	var a *tcpassembly.Assembler
	lk := [2]int{h.PerConnLimit, h.TotalLimit}
	c10HistoryNo++
	if sh := c10Shared[lk]; sh != nil && c10HistoryNo%2 == 0 {
		sh.f.cur = r
		a = sh.a
		c.Count("histories_on_a_reused_pool", 1)
	} else {
		f := &c10Factory{cur: r}
		a = tcpassembly.NewAssembler(tcpassembly.NewStreamPool(f))
		c10Shared[lk] = &c10SharedAsm{f, a}
	}
	a.MaxBufferedPagesPerConnection = h.PerConnLimit
	a.MaxBufferedPagesTotal = h.TotalLimit
	if pi := r.play(a, nil); pi != nil {
		delete(c10Shared, lk)
		c.Violation(pi.Key, "assembler panicked: "+pi.Value, map[string]any{"history": h.String(), "stack": pi.Stack})
		return
	}
	r.finals()
	started, limitSkips := 0, 0
	for _, s := range r.streams {
		if s.chk != nil && s.chk.Started {
			started++
			limitSkips += s.chk.LimitSkips
			if s.chk.SawSkip {
				c.Count("directions_with_announced_skip", 1)
			}
		}
	}
	c.Count("started_directions_checked", started)
	c.Count("limit_forced_releases", limitSkips)
	for f := range h.Features {
		c.Count("histories_with_"+f, 1)
	}
	if h.Features["ooo"] {
		c.NonTrivial(vlib.HashString(h.String()))
	}
	if c.WantSample() {
		s := h.String()
		if len(s) > 1500 {
			s = s[:1500] + "..."
		}
		c.Sample(map[string]any{"history": s})
	}
}

func c10Random(c *vlib.Ctx) {
	n := c.Pick(2500, 40000)
	for i := 0; i < n; i++ {
		if !c.Begin(i) {
			continue
		}
		r := c.Rand(uint64(i))
		p := asm.Params{Conns: r.Range(1, 2), MaxStream: c.Pick(16<<10, 64<<10), Flushes: r.Chance(1, 2), NoSYN: 10, CloseProb: 60, Stall: 6, MixSizes: r.Chance(1, 6)}
		if r.Chance(1, 2) {
			p.MaxStream = 600
			p.SmallSegs = r.Bool()
		}
		h := asm.Gen(r, p)
		if r.Chance(1, 3) {
			h.PerConnLimit = []int{1, 2, 5}[r.Intn(3)]
		}
		if r.Chance(1, 8) {
			h.TotalLimit = []int{1, 2, 5}[r.Intn(3)]
		}
		runHistory10(c, h)
		c.End()
	}
}

// c10Perm: all permutations of <= 6 segments x duplicate placements x ISNs around the wrap.
func c10Perm(c *vlib.Ctx) {
	idx := 0
	isns := []uint32{0xffffffff - 10, 0xfffffff0, 0, 0x7ffffffa}
	for nseg := 2; nseg <= c.Pick(5, 6); nseg++ {
		for _, isn := range isns {
			idx++
			if idx%c.NBatch != c.Batch || !c.Begin(idx) {
				continue
			}
			r := c.Rand(uint64(idx))
			S := r.Bytes(nseg*6 + r.Intn(5))
			cn := asm.Conn{SrcPort: 1000, DstPort: 80, Dirs: 1}
			cn.SrcIP, cn.DstIP = [4]byte{1, 2, 3, 4}, [4]byte{5, 6, 7, 8}
			cn.S[0], cn.ISN[0] = S, isn
			// segments: SYN + (nseg-1) data pieces
			var segs []asm.Seg
			segs = append(segs, asm.Seg{Seq: isn, SYN: true})
			per := len(S) / (nseg - 1)
			for k := 0; k < nseg-1; k++ {
				a, b := k*per, (k+1)*per
				if k == nseg-2 {
					b = len(S)
				}
				segs = append(segs, asm.Seg{Seq: isn + 1 + uint32(a), Data: S[a:b], Off: a})
			}
			perm := make([]int, nseg)
			for k := range perm {
				perm[k] = k
			}
			cnt := 0
			var rec func(k int)
			rec = func(k int) {
				if k == nseg {
					// duplicate placements: none, or one duplicate of segment d inserted at position q
					for d := -1; d < nseg; d++ {
						for q := 0; q <= nseg; q++ {
							if d < 0 && q > 0 {
								break
							}
							h := &asm.History{Conns: []asm.Conn{cn}, Features: map[string]bool{}}
							ts := int64(100)
							add := func(s asm.Seg) {
								ts++
								h.Evs = append(h.Evs, asm.Ev{Kind: asm.EvSeg, Seg: s, TS: ts})
							}
							for pos, si := range perm {
								if d >= 0 && pos == q {
									add(segs[d])
								}
								add(segs[si])
								if pos > 0 && segs[si].Off < segs[perm[pos-1]].Off {
									h.Features["ooo"] = true
								}
							}
							if d >= 0 && q == nseg {
								add(segs[d])
							}
							if d >= 0 {
								h.Features["overlap"] = true
							}
							if uint64(isn)+uint64(len(S))+2 > 1<<32 {
								h.Features["wrap"] = true
							}
							h.Evs = append(h.Evs, asm.Ev{Kind: asm.EvFlushAll, TS: ts + 1})
							runHistory10(c, h)
							cnt++
						}
					}
					return
				}
				for j := k; j < nseg; j++ {
					perm[k], perm[j] = perm[j], perm[k]
					rec(k + 1)
					perm[k], perm[j] = perm[j], perm[k]
				}
			}
			rec(0)
			c.Evals(cnt)
			c.Count("permutation_histories", cnt)
			c.End()
		}
	}
}
