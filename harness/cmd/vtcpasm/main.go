// vtcpasm hosts the monitors of package tcpassembly (+ tcpreader). It is a separate binary because tcpassembly and
// reassembly register the same command-line flags and cannot be linked together.
package main

import "verif/harness/internal/vlib"

func main() { vlib.ChildMain() }
