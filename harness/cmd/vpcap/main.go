// vpcap cross-reads the capture files written by pcapgo with libpcap (cgo). It is a separate binary so that a
// cgo/libpcap problem can never take the other checks down.
package main

import (
	"bytes"
	"fmt"
	"io"
	"os"
	"path/filepath"

	"github.com/gopacket/gopacket"
	"github.com/gopacket/gopacket/pcap"

	"verif/harness/internal/capgen"
	"verif/harness/internal/vlib"
)

func main() {
	vlib.Register("C14", "libpcap", c14Libpcap)
	vlib.ChildMain()
}

func c14Libpcap(c *vlib.Ctx) {
	n := c.Pick(400, 8000)
	dir := filepath.Join(os.Getenv("VERIF_ROOT"), "work", "C14")
	if os.Getenv("VERIF_ROOT") == "" {
		dir = "/verif/work/C14"
	}
	os.MkdirAll(dir, 0o755)
	path := filepath.Join(dir, fmt.Sprintf("libpcap-b%d-%d.cap", c.Batch, os.Getpid()))
	defer os.Remove(path)
	for i := 0; i < n; i++ {
		if !c.Begin(i) {
			continue
		}
		r := c.Rand(uint64(i))
		var f *capgen.File
		switch r.Intn(3) {
		case 0:
			f = capgen.Classic(r, false, false)
		case 1:
			f = capgen.Classic(r, true, false)
		default:
			f = capgen.NgFile(r, false, true)
		}
		if f.WriteErr != "" || len(f.Bytes) == 0 {
			c.End()
			continue
		}
		det := map[string]any{"kind": f.Kind.String(), "packets": len(f.Pkts), "snaplen": f.Snaplen, "features": fmt.Sprint(f.Features), "file_hex_prefix": fmt.Sprintf("%x", f.Bytes[:min(len(f.Bytes), 2000)])}
		if err := os.WriteFile(path, f.Bytes, 0o644); err != nil {
			c.Inconclusive("cannot write temp file: " + err.Error())
			c.End()
			continue
		}
		var h *pcap.Handle
		var err error
		if pi := vlib.Guard(func() { h, err = pcap.OpenOffline(path) }); pi != nil {
			c.Violation(pi.Key, "pcap.OpenOffline panicked: "+pi.Value, det)
			c.End()
			continue
		}
		if err != nil {
			c.Violation("libpcap-rejects-file:"+f.Kind.String(), "libpcap cannot open a file written by pcapgo: "+err.Error(), det)
			c.End()
			continue
		}
		got := 0
		for {
			var d []byte
			var ci gopacket.CaptureInfo
			var e error
			if pi := vlib.Guard(func() { d, ci, e = h.ReadPacketData() }); pi != nil {
				c.Violation(pi.Key, "pcap ReadPacketData panicked: "+pi.Value, det)
				break
			}
			if e == io.EOF {
				break
			}
			if e != nil {
				c.Violation("libpcap-read-error:"+f.Kind.String(), fmt.Sprintf("libpcap failed after %d of %d packets: %v", got, len(f.Pkts), e), det)
				break
			}
			if got >= len(f.Pkts) {
				c.Violation("libpcap-extra-packet:"+f.Kind.String(), "libpcap read more packets than were written", det)
				break
			}
			w := f.Pkts[got]
			wantCap := len(w.Data)
			// libpcap clips to the file's snap length when reading
			want := w.Data
			if sl := int(f.Snaplen); f.Kind != capgen.Ng && sl > 0 && wantCap > sl {
				want = want[:sl]
			}
			// this binding opens offline files with nanosecond precision; the file's own resolution applies
			wantTS := w.CI.Timestamp
			if f.Kind == capgen.ClassicMicro {
				wantTS = wantTS.Truncate(1000)
			}
			// libpcap reads the 32-bit seconds of classic files as a signed value: times after 2038 are not comparable
			skipTS := f.Kind != capgen.Ng && w.CI.Timestamp.Unix() >= 1<<31
			switch {
			case !bytes.Equal(d, want):
				c.Violation("libpcap-data-differs:"+f.Kind.String(), fmt.Sprintf("packet %d: libpcap read %d bytes, %d were written", got, len(d), len(w.Data)), det)
			case ci.Length != w.CI.Length || ci.CaptureLength != len(want):
				c.Violation("libpcap-lengths-differ:"+f.Kind.String(), fmt.Sprintf("packet %d: libpcap caplen/len %d/%d, written %d/%d", got, ci.CaptureLength, ci.Length, w.CI.CaptureLength, w.CI.Length), det)
			case !skipTS && !ci.Timestamp.Equal(wantTS):
				c.Violation("libpcap-timestamp-differs:"+f.Kind.String(), fmt.Sprintf("packet %d: libpcap %v, written %v (file resolution)", got, ci.Timestamp.UnixNano(), wantTS.UnixNano()), det)
			}
			got++
		}
		// libpcap reports DLT_ values, the file stores LINKTYPE_ values (e.g. raw IP: 12 vs 101): compare by name
		if h.LinkType().String() != f.LinkType.String() {
			c.Violation("libpcap-linktype-differs:"+f.Kind.String(), fmt.Sprintf("libpcap link type %v, written %v", h.LinkType(), f.LinkType), det)
		}
		h.Close()
		if got < len(f.Pkts) {
			key := "libpcap-packet-count:" + f.Kind.String()
			c.Violation(key, fmt.Sprintf("libpcap read %d packets, %d were written", got, len(f.Pkts)), det)
		}
		c.Count("libpcap_files_"+f.Kind.String(), 1)
		c.Count("libpcap_packets_compared", got)
		if len(f.Pkts) >= 3 {
			c.NonTrivial(vlib.HashBytes(f.Bytes))
		}
		c.End()
	}
}
