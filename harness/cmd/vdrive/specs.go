package main

import "verif/harness/internal/vlib"

const trusted = "Trusted base: the Go toolchain/runtime (race detector, checkptr), the harness's own oracles (reference models in /verif/harness, independent of gopacket code), and that cases derive deterministically from VERIF_SEED. The verdict covers only the executions produced; inputs/schedules never generated are not covered."

func init() {
	add(Spec{
		PropSpec: vlib.PropSpec{
			ID: "C17", Level: "exploration",
			Rule:        "laws phase: per round a pool of 200 endpoints over 13 endpoint types (registered + unregistered, negative, >32bit) with byte strings of length 0..16 generated to share prefixes, differ only in length / trailing zeros / one bit / type; all 40 000 ordered pairs and all ordered triples are evaluated against the (type,bytes) model. layers phase: Ethernet/IPv4|IPv6/TCP|UDP|SCTP|UDPLite|RUDP packets built byte-by-byte by the harness (addresses known; one packet in four uses structured addresses: IPv4-mapped / IPv4-compatible / unspecified / loopback / multicast / all-ones IPv6, zero and broadcast IPv4 and MAC, ports 0/65535/255/256, on either side or both), decoded eagerly and lazily, forward and with addresses swapped, plus FDDI/LinuxSLL/PPP and parser-reused layers. distinct_nontrivial = distinct (type,bytes) endpoints + distinct packets (by content hash); every generated case is non-trivial by construction (no empty pools).",
			Assumptions: []string{"endpoint pools and packets are PRNG generated; 'all pairs/triples' is exhaustive only within each pool"},
			Phases: []vlib.Phase{
				{Name: "laws", Bin: "vchild", Quick: 4, Thorough: 16},
				{Name: "layers", Bin: "vchild", Quick: 8, Thorough: 16},
			},
			Require: []string{"endpoint_pairs", "ordered_triples", "flows_checked", "reused_layer_flows", "oversize_rejections_checked"},
		},
		LevelText: "Runtime monitor: algebraic laws of Endpoint/Flow evaluated against an independent (type,bytes) model on generated value pools (all pairs and triples per pool), and flows of decoded layers compared with the addresses the harness itself put on the wire. Exploration: holds on the values generated, not for all values.",
		LevelNote: trusted,
		Technique: "runtime monitoring: reference-model oracle over generated values + decoded-layer flow monitor",
		DesignRef: "DESIGN.md §3 C17",
	})
	add(Spec{
		PropSpec: vlib.PropSpec{
			ID: "C18", Level: "exploration",
			Rule:        "exhaustive phase: every sequence over the alphabet {P0,P1,P3,P8,P100,A0,A1,A3,A8,A100,Clear,Push} of length <= 5 (quick) / <= 7 (thorough) x 6 initial hints (NewSerializeBuffer, ExpectedSize (0,0),(1,0),(0,1),(8,8),(100,3)); for sequences up to length 5 every still-valid earlier returned slice is rewritten after every op. random phase: 50..500 ops, sizes up to 70 000, incl. rewrites through earlier slices. stack phase: SerializeLayers over 0..6 stub layers (prepend + optional trailer append, injected errors) on fresh/pre-sized/dirty buffers. After every op Bytes()/Layers() are compared with a reference deque in virtual coordinates and the returned slice is checked by address to be the window at its position. Non-trivial = sequence with a non-empty prepend AND a non-empty append (exhaustive), every random sequence, stacks of >= 2 layers; distinct by (hint, op list) hash.",
			Assumptions: []string{"bounded-depth enumeration is complete only for the stated alphabet, depth and hints"},
			Phases: []vlib.Phase{
				{Name: "exhaustive", Bin: "vchild", Quick: 16, Thorough: 16},
				{Name: "random", Bin: "vchild", Quick: 8, Thorough: 16},
				{Name: "stack", Bin: "vchild", Quick: 4, Thorough: 8},
			},
			Require:    []string{"sequences_enumerated", "random_ops", "stacks_checked", "stack_error_cases"},
			Exhaustive: func(string) bool { return true },
		},
		LevelText: "Runtime monitor: the real SerializeBuffer is driven through every operation sequence of a bounded alphabet/depth (complete enumeration, so exhaustive:true refers to that bounded space) and long random sequences, with an independent reference deque compared after every operation and address-window checks on returned slices.",
		LevelNote: trusted,
		Technique: "runtime monitoring: reference-model (deque) comparison after every operation, bounded-exhaustive + random operation histories",
		DesignRef: "DESIGN.md §3 C18",
	})
	add(Spec{
		PropSpec: vlib.PropSpec{
			ID: "C08", Level: "exploration",
			Rule:        "fold phase: FoldChecksum vs a 64-bit end-around reference for ALL 2^32 accumulator values (thorough, 16 shards) or a stratified 2^22+917 504-value subset (quick: high or low half in {0,1,2,0x7fff,0x8000,0xfffe,0xffff} x all 65 536, plus PRNG values). sum phase: FoldChecksum(ComputeChecksum(d,init)) vs RFC 1071 reference for all lengths 0..64 x 5 byte patterns x 6 initial sums, PRNG strings <= 4 KiB, 65 535..65 537, and 128 KiB..300 KB strings of 0xff/large words (32-bit carry-out region). proto phase: for IPv4 header (IHL 5..15), TCP/v4, TCP/v6, UDP/v4, UDP/v6, ICMPv4, ICMPv6, GRE (+key/seq, + source route entries of odd and even length - an odd one makes the header odd-sized, so the payload starts inside a checksum word) packets built with SerializeLayers(FixLengths,ComputeChecksums): stored checksum == independent reference over the covered bytes + independently built pseudo-header; a 16-bit compensation word (payload word / IPv4 Id) steers each family through the checksum outcomes (all 65 536 words for one family per protocol and parity in quick, six families in thorough; the special outcomes 0x0000/0xffff/0x0001/0xfffe/0x8000/0x7fff/0x00ff/0xff00 are additionally solved for), odd and even payload lengths; every built packet is decoded and verified (layer VerifyChecksum + Packet.VerifyChecksums); every single-bit flip of every covered bit (incl. stored checksum and pseudo-header addresses) that leaves the covered byte range unchanged must be reported invalid with Correct == reference. jumbo phase: UDP, TCP and ICMPv6 jumbograms over IPv6 of 131 056..131 072 bytes of 0xff, each walked with a compensation word (32 values in quick, 128 in thorough) across the point where the one's complement sum passes 2^32: written checksum == reference (32-bit pseudo-header length), verification accepts, and 24 single-bit flips per packet (the last word's 16 bits, 8 PRNG payload bits) are reported invalid with Correct == reference (the subtraction of the stored checksum from a folded sum must not wrap). Non-trivial = every packet (>= 1 covered word) and every >= 2-byte string; distinct by content hash.",
			Assumptions: []string{"the harness's RFC 1071 reference (64-bit accumulation, end-around fold) and pseudo-header builders are correct", "bit flips that change which bytes a layer covers (length/IHL/data-offset fields) are skipped, because an accidental 2^-16 match is then legitimate"},
			Phases: []vlib.Phase{
				{Name: "fold", Bin: "vchild", Quick: 16, Thorough: 16},
				{Name: "sum", Bin: "vchild", Quick: 8, Thorough: 16},
				{Name: "proto", Bin: "vchild", Quick: 16, Thorough: 16},
				{Name: "jumbo", Bin: "vchild", Quick: 16, Thorough: 16},
			},
			Require:    []string{"fold_values", "sum_strings", "sum_long_inputs", "steered_packets", "bitflips_checked", "outcome_0xffff_seen", "outcome_0x0000_seen", "gre_without_checksum_checked", "jumbograms_verified"},
			Exhaustive: func(t string) bool { return false },
		},
		LevelText: "Runtime monitor with an independent RFC 1071 reference: the real helpers and serializers run on generated inputs and every result is compared with the reference; FoldChecksum is compared on all 2^32 inputs in the thorough tier. Exploration elsewhere (packets and strings are sampled; checksum outcomes are enumerated by steering).",
		LevelNote: trusted,
		Technique: "runtime monitoring: differential oracle against an independent RFC 1071 reference, outcome steering and exhaustive single-bit corruption per packet",
		DesignRef: "DESIGN.md §3 C08",
	})
	add(Spec{
		PropSpec: vlib.PropSpec{
			ID: "C13", Level: "exploration",
			Rule:        "benign phase: 1..4 datagrams (payload 8..3000, a tier at the 65 515 maximum; header 20..60 bytes with options on first / other fragments; keys that differ only in id or only in src) cut at PRNG 8-byte boundaries into 2..8 (up to 60) fragments built byte-by-byte, fed in order / reversed / permuted with exact duplicates, unfragmented and DF packets mixed in and an optional DiscardOlderThan at a PRNG step; plus ALL permutations of 2..5 (thorough 6) fragments with and without options. Model: per key the set of fragments seen since the last completion/discard; result must be nil until the set is complete, then one datagram with payload == original, MF/offset cleared, Length == 4*IHL+len(Payload), same id/src/dst/proto; pass-through must return the same pointer unchanged. hostile phase: overlapping/conflicting/oversize/undersize/too-many fragments; any returned datagram must consist of bytes some fragment placed at that offset and end where a last fragment ended. v6 phase: valid IPv6 partitions (<= 20 fragments, permuted, duplicates, 1..3 ids interleaved) must return nil until complete and then the original payload and next header. Non-trivial = history with >= 3 arrivals and at least one fragment arriving before a lower-offset one; distinct by history hash.",
			Assumptions: []string{"fragments are produced by the harness's wire builder and decoded with layers.IPv4.DecodeFromBytes before being fed", "for hostile sets only the 'no invented byte / consistent header' rule is checked; nil or an error is always accepted"},
			Phases: []vlib.Phase{
				{Name: "benign", Bin: "vchild", Quick: 16, Thorough: 16},
				{Name: "hostile", Bin: "vchild", Quick: 16, Thorough: 16},
				{Name: "v6", Bin: "vchild", Quick: 8, Thorough: 16},
			},
			Require: []string{"datagrams_completed", "duplicate_fragments_fed", "histories_out_of_order", "passthrough_packets", "permutations_enumerated", "hostile_fragments_fed", "v6_datagrams_completed", "discards", "oversize_sets_fed"},
		},
		LevelText: "Runtime monitor with a reference placement model per (src,dst,id): the real defragmenters are fed generated benign and hostile fragment histories and every return value is checked against the model. Exploration: histories are sampled (small permutation sets enumerated).",
		LevelNote: trusted,
		Technique: "runtime monitoring: reference-model oracle (fragment placement) over generated benign/hostile histories",
		DesignRef: "DESIGN.md §3 C13",
	})
	asmRule := "History generator: per direction a PRNG byte stream (<= 16 KiB quick / 64 KiB thorough, half of the cases <= 600 bytes with 1..8-byte segments), ISN from {0, 1, 2^31+-k, 2^32-len-k..2^32-1 (wrap inside the stream at every alignment), 0xffffffff-k, random}; segment sizes from {1,2,7,100,1460,1900,1901,4000,9000} or PRNG ranges; arrival in order / reversed / k-local shuffles / random permutation / SYN late; retransmissions = exact duplicates, sub/supersets, partial overlaps with consistent data, duplicated SYN; FIN/RST last in sequence space; 1-in-10 directions without SYN; FlushOlderThan at PRNG logical times and cut-offs; per-connection / total page limits {1,2,5}; final FlushAll. perm phase: ALL permutations of SYN+1..4 (thorough 5) data segments x every placement of one duplicate x 4 ISNs around the wrap. Oracle: cursor over the sender's stream per stream object and direction whose first delivery had Start. Non-trivial = history with at least one segment arriving before a lower-offset one; distinct by history hash."
	add(Spec{
		PropSpec: vlib.PropSpec{
			ID: "C10", Level: "exploration", Rule: asmRule,
			Assumptions: []string{"segments are handed to Assembler.AssembleWithTimestamp as layers.TCP values built by the harness (no decoding involved)", "directions whose start was never seen are checked for lifecycle only"},
			Phases: []vlib.Phase{
				{Name: "random", Bin: "vtcpasm", Quick: 16, Thorough: 16},
				{Name: "perm", Bin: "vtcpasm", Quick: 16, Thorough: 16},
			},
			Require: []string{"started_directions_checked", "histories_with_wrap", "histories_with_overlap", "histories_with_ooo", "limit_forced_releases", "directions_with_announced_skip", "permutation_histories", "histories_with_flusholder"},
		},
		LevelText: "Runtime monitor: the real tcpassembly.Assembler is fed generated segment histories; every Reassembled/ReassemblyComplete callback is checked online against a cursor model of the sender's byte stream (exactly-once, in-order, skips only over never-arrived bytes and only in flush / limit context). Exploration over sampled histories, small permutation sets enumerated.",
		LevelNote: trusted,
		Technique: "runtime monitoring: online trace checker (cursor model) over recorded stream callbacks",
		DesignRef: "DESIGN.md §3 C09/C10",
	})
	add(Spec{
		PropSpec: vlib.PropSpec{
			ID: "C09", Level: "exploration", Rule: asmRule + " Additionally for package reassembly: both directions may carry data through one stream object; on a PRNG subset of deliveries (10/30/80 %) the stream calls KeepFrom(k), k PRNG in [0, available], and the next delivery must present exactly those bytes as saved (or none when it announces a skip).",
			Assumptions: []string{"segments are handed to Assembler.AssembleWithContext as layers.TCP values built by the harness", "the stream's Accept always returns true and never forces a start", "directions whose start was never seen are checked for lifecycle only"},
			Phases: []vlib.Phase{
				{Name: "random", Bin: "vreasm", Quick: 16, Thorough: 16},
				{Name: "perm", Bin: "vreasm", Quick: 16, Thorough: 16},
			},
			Require: []string{"started_directions_checked", "histories_with_wrap", "histories_with_overlap", "histories_with_ooo", "limit_forced_releases", "directions_with_announced_skip", "permutation_histories", "histories_with_flusholder", "histories_with_keep", "directions_with_kept_bytes_represented"},
		},
		LevelText: "Runtime monitor: the real reassembly.Assembler is fed generated segment histories; every ReassembledSG/ReassemblyComplete callback is checked online against a cursor model of the sender's byte stream incl. the KeepFrom/saved contract. Exploration over sampled histories, small permutation sets enumerated.",
		LevelNote: trusted,
		Technique: "runtime monitoring: online trace checker (cursor model) over recorded stream callbacks",
		DesignRef: "DESIGN.md §3 C09/C10",
	})
	add(Spec{
		PropSpec: vlib.PropSpec{
			ID: "C11", Level: "exploration",
			Rule:        "Both assembler packages: histories of 5..40 (thorough ..120) connections, both directions, interleaved PRNG; segment sizes 1 byte..5 pages (one third of the histories mix 1-page and multi-page packets and hold back the first data segment of half of the directions so that everything queues); closes by FIN/RST, re-open of the same 4-tuple after close (late retransmissions, duplicated SYN), directions without SYN, monotone or jittered timestamps, limits {none, per-connection 1,2,5, total 3,10}, FlushOlderThan/FlushCloseOlderThan at PRNG points and cut-offs, FlushAll in the middle and at the end; reassembly additionally with KeepFrom (10/40 %) and streams that refuse removal. After EVERY API call an audit reads pages-in-use and the pool snapshot through the verif accessors (under the package's own locks) and checks: I1 each stream New -> data* -> complete exactly once, nothing after completion; I2 pages in use == queued pages of open directions + kept pages, after FlushAll no removable connection and no page remains; I3 with a limit L the out-of-order pages (per connection / in total) are <= L + pages(current packet); I4 after an age flush no open connection waits in front of a page older than the cut-off and every gap skipped in that call led to data older than the cut-off. Non-trivial = history with >= 1 age flush that released data AND >= 1 limit-forced release; distinct by history hash.",
			Assumptions: []string{"page and pool state is read through build-tag 'verif' accessors added to both packages (read-only, under conn.mu)", "'waiting on data older than the cut-off' is read as: the first (lowest-sequence) queued page is older than the cut-off"},
			Phases: []vlib.Phase{
				{Name: "tcpassembly", Bin: "vtcpasm", Quick: 16, Thorough: 16},
				{Name: "reassembly", Bin: "vreasm", Quick: 16, Thorough: 16},
			},
			Require: []string{"classic_api_calls_audited", "reassembly_api_calls_audited", "classic_age_flushes_that_released_data", "reassembly_age_flushes_that_released_data", "classic_limit_forced_releases", "reassembly_limit_forced_releases", "reassembly_histories_with_streams_refusing_removal", "reassembly_histories_with_keep"},
		},
		LevelText: "Runtime monitor: structural invariants of both assemblers audited after every API call of generated multi-connection histories, through read-only accessors on live state, plus per-stream lifecycle counters in the stream wrappers.",
		LevelNote: trusted,
		Technique: "runtime monitoring: invariant audit at quiescent points via hooks + lifecycle monitors on stream callbacks",
		DesignRef: "DESIGN.md §3 C11",
	})
	add(Spec{
		PropSpec: vlib.PropSpec{
			ID: "C12", Level: "exploration",
			Rule:        "stress phases (race build, GOMAXPROCS=8): 2..8 assembler goroutines + (3 of 4 rounds) a concurrent flusher (FlushOlderThan / FlushAll) on one StreamPool over 2..6 connections that are opened (SYN), fed in order and closed (FIN) for 20..120 (thorough ..300) generations each; every direction is fed by exactly one assembler; lock-free yield points (verif hooks) inject Gosched/1-100us sleeps; payloads are self-describing 8-byte records (conn, dir, generation, index) so each stream checks on its own, without shared monitor state, that it only gets its own connection's bytes, in order, gap-free unless a skip is announced, never concurrently (atomic in-callback flag), completed exactly once; offline after join: no record delivered twice, lifetimes of the kept streams of one key do not overlap (single live entry), pool empty after the final FlushAll; the single-live-entry-per-key rule is decided by porcupine over the callback intervals (monotonic clock, per-stream logs); Go race detector reports are parsed and keyed by the innermost gopacket function pair. sched phases (plain build): scenarios of 2..3 assembler goroutines (+ flusher) x <= ~15 calls built from four templates (two directions of one connection on two assemblers; one key on two assemblers; close by one assembler while another holds the pointer and a third opens a connection that recycles the object; mixed), run one goroutine at a time under a controller that parks goroutines at the lock-free yield points (pool miss, after factory.New, before conn.mu.Lock, before each flush lock, call boundaries): depth-first enumeration of all schedules with <= 2 (thorough 3) preemptions, capped, plus PRNG-sampled schedules; pool and assemblers are reused from schedule to schedule so recycled connection objects are in play; same per-stream monitors, event-level porcupine check, deadlock = runner blocked on a lock while all others are parked lock-free. Non-trivial = stress round, or schedule with >= 2 context switches; distinct by (round,batch) / schedule hash.",
			Assumptions: []string{"the race detector only reports races between accesses that both executed in the run", "stream monitors use only per-stream state (plus an atomic in-callback flag), so they add no happens-before edges between different connections"},
			Phases: []vlib.Phase{
				{Name: "stress-tcpassembly", Bin: "vtcpasm", Race: true, Quick: 2, Thorough: 4, Procs: 8, Parallel: 2},
				{Name: "stress-reassembly", Bin: "vreasm", Race: true, Quick: 2, Thorough: 4, Procs: 8, Parallel: 2},
				{Name: "sched-tcpassembly", Bin: "vtcpasm", Quick: 16, Thorough: 16, Procs: 2},
				{Name: "sched-reassembly", Bin: "vreasm", Quick: 16, Thorough: 16, Procs: 2},
			},
			Require: []string{"stress_rounds_tcpassembly", "stress_rounds_reassembly", "stress_rounds_with_flusher", "schedules_tcpassembly", "schedules_reassembly", "callback_events_checked_by_porcupine"},
		},
		LevelText: "Runtime monitoring under stress: the real assemblers run concurrently against one pool under the Go race detector with delay injection at lock-free yield points; per-stream monitors and offline history checks decide ordering, single-entry and exactly-once completion. Exploration: only the interleavings that occurred are covered.",
		LevelNote: trusted,
		Technique: "runtime monitoring: Go race detector + per-stream trace monitors under randomized stress with injected delays; (systematic schedule enumeration + porcupine in the sched phases)",
		DesignRef: "DESIGN.md §3 C12",
	})
	add(Spec{
		PropSpec: vlib.PropSpec{
			ID: "C20", Level: "exploration",
			Rule:        "enum phase: every delivery script of <= 2 batches x 1..2 slices (plus all 3-batch scripts of single slices) with slice lengths {0,1,5} and skips {0,3}, followed by completion, crossed with every consumer script: 0..3 (thorough 0..4) leading reads of sizes {0,1,7} (thorough {0,1,3,7,64}) then one of {read to EOF with 1-byte reads, read to EOF with 4096-byte reads, Close, Close+Read, Close+Close, Close+read to EOF}, LossErrors off and on; the assembler side calls Reassembled/ReassemblyComplete exactly as tcpassembly does, in its own goroutine. assembler phase: real Assembler over generated out-of-order histories with a ReaderStream per direction, consumers with PRNG read sizes, LossErrors, and Close after a PRNG number of reads (race build). Oracle: bytes read == (prefix of) the concatenation handed over, EOF only after completion, one DataLost per gap that is followed by data when asked, no panic, and BOTH goroutines finish - a deadlock is decided from a goroutine snapshot (all unfinished parties parked on the stream's channels), the timer only decides when to look. Non-trivial = scenario with >= 2 batches and >= 1 leading read; distinct by (delivery script, consumer script).",
			Assumptions: []string{"a slice with a skip but no bytes is not required to produce DataLost (the statement does not say)", "a consumer that neither keeps reading nor closes is outside the property"},
			Phases: []vlib.Phase{
				{Name: "enum", Bin: "vtcpasm", Quick: 16, Thorough: 16, Procs: 2, Parallel: 16},
				{Name: "assembler", Bin: "vtcpasm", Race: true, Quick: 8, Thorough: 16, Procs: 4, Parallel: 4},
			},
			Require:    []string{"scenarios_enumerated", "streams_read_to_eof", "streams_closed_by_consumer"},
			Exhaustive: func(string) bool { return false },
		},
		LevelText: "Runtime monitor: the real ReaderStream is driven through an enumerated space of delivery x consumer scripts (each in two real goroutines) and through a real Assembler; a byte-stream model and a snapshot-based deadlock detector decide each scenario.",
		LevelNote: trusted,
		Technique: "runtime monitoring: scenario enumeration with reference byte-stream model, snapshot-based deadlock detection, Go race detector on the end-to-end phase",
		DesignRef: "DESIGN.md §3 C20",
	})
	add(Spec{
		PropSpec: vlib.PropSpec{
			ID: "C16", Level: "exploration",
			Rule:        "Scripted data sources (copying, and zero-copy ones that really reuse one buffer and overwrite it on every read) replay PRNG histories of 5..300 items (a 2500-item tier overflows the 1000-slot channel): packets with unique ids (caplen <= len, snapped in 1 of 4), timeouts (net.Error), transient errors, and a terminal error out of {EOF, ErrUnexpectedEOF, ErrNoProgress, ErrClosedPipe, ErrShortBuffer, EBADF, 'use of closed file', wrapped EOF}; decode options Lazy/NoCopy PRNG. pull phase: NextPacket results must mirror the script item by item (errors surfaced as-is, ids in order, CaptureInfo equal, Truncated == caplen<len or decoder-detected). channel phase: ids received from Packets() == the script's packets in order, once; channel closed after the terminal error and not before, no read after it; slow and fast consumers; zero-copy source + NoCopy must be refused. cancel phase: PacketsCtx cancelled at every script position (enumerated modulo the script length), both between reads and while a read is blocked inside the source: at most one source read may start after cancel() returned and the channel must get closed (goroutine exit), decided with a goroutine snapshot; stopped consumer: 1001..1040 packets, the consumer takes 0-2 and never receives again, the context is cancelled once the channel is full - the background goroutine must disappear although nobody receives, and the buffered packets must still be the next ones in order followed by the close; no packetsToChannel goroutine may be left at the end. Every delivered packet's signature is recomputed after the whole script ran (not altered by later reads). All phases under the race detector. Non-trivial = every script (>= 5 items, >= 1 packet); distinct by (case, batch).",
			Assumptions: []string{"the 5 ms retry sleeps of packetsToChannel bound throughput: scripts contain <= 12 timeouts/transient errors", "a zero-copy source with NoCopy on the pull interface aliases by design and is excluded from the not-altered check"},
			Phases: []vlib.Phase{
				{Name: "pull", Bin: "vchild", Race: true, Quick: 8, Thorough: 16},
				{Name: "channel", Bin: "vchild", Race: true, Quick: 16, Thorough: 16, Procs: 2, Parallel: 8},
				{Name: "cancel", Bin: "vchild", Race: true, Quick: 16, Thorough: 16, Procs: 2, Parallel: 8},
			},
			Require: []string{"pull_packets", "pull_errors_surfaced", "channel_packets", "channels_closed_after_terminal_error", "zero_copy_nocopy_refusals_checked", "cancellations_with_stopped_consumer", "cancellations", "cancellations_during_a_read"},
		},
		LevelText: "Runtime monitor: the real PacketSource runs against scripted data sources; an event log of source reads and consumer receipts is checked for exactly-once in-order delivery, metadata, channel closing and bounded reads after cancellation; race detector on.",
		LevelNote: trusted,
		Technique: "runtime monitoring: scripted fault-injecting data source + history checker (exactly-once/in-order/closing), snapshot-based liveness, Go race detector",
		DesignRef: "DESIGN.md §3 C16",
	})
	add(Spec{
		PropSpec: vlib.PropSpec{
			ID: "C14", Level: "fault_enumeration",
			Rule:        "Files are produced by the library's writers from PRNG packet sequences (0..9 packets; data 0..120 bytes, a 1400..1600 tier, lengths not multiple of 4; caplen <= len; timestamps over the representable range incl. 0 / 999 999 999 ns / sub-microsecond): classic pcap us and ns (snaplen = max caplen, larger, 262144, or 0; 5 link types) and pcapng (1..4 interfaces added while writing, same or mixed link types, names/comments/descriptions/filters/OS/tsoffset/snaplen, section info, per-packet comments incl. empty strings and every length mod 4, flags, hashes, drop count, packet id, queue, verdicts, interface statistics blocks in between); the writer-side log records the file offset after each flushed packet. roundtrip phase: read back with ReadPacketData, ReadPacketDataWithOptions and ZeroCopyReadPacketData and compare data, lengths, interface / link type, options, timestamps to file resolution, section and interface descriptions; must end with io.EOF. truncate phase (crash-point enumeration): for every generated file (<= 6 KiB) and every read API, EVERY byte offset k in 0..len is cut and read: the packets returned before the first error must be exactly those whose end offset <= k, equal to the full-file read, and the terminating error (constructor or read) must satisfy errors.Is(io.EOF) or errors.Is(io.ErrUnexpectedEOF). libpcap phase: the same writers' files (classic us/ns, single-link-type pcapng) are read with pcap.OpenOffline and compared (data, caplen, len, timestamp to the microsecond, link type). Non-trivial = file with >= 3 packets and (per-packet options or a data length not multiple of 4); distinct by file content hash. Results of the copying read calls are kept as returned until the whole file has been read (only zero-copy results are copied at once), so a copying call that hands out reader-owned memory shows up as an altered earlier packet.",
			Assumptions: []string{"generator respects the formats' own preconditions: caplen <= len, caplen <= snaplen when snaplen != 0, 0 <= Unix time < 2^32 s (classic), 1970..2262 (pcapng), strings < 64 KiB", "crash points are enumerated exhaustively per file; files are sampled", "libpcap (system library) is the independent reader of the cross-check"},
			Phases: []vlib.Phase{
				{Name: "roundtrip", Bin: "vchild", Quick: 16, Thorough: 16},
				{Name: "truncate", Bin: "vchild", Quick: 16, Thorough: 16},
				{Name: "libpcap", Bin: "vpcap", Quick: 8, Thorough: 16},
			},
			Require: []string{"roundtrip_reads_pcapng", "roundtrip_reads_pcap-us", "roundtrip_reads_pcap-ns", "truncation_offsets_enumerated", "files_truncated_at_every_offset", "libpcap_packets_compared", "files_with_packet-options", "files_with_several-interfaces"},
		},
		LevelText: "Runtime monitor with fault enumeration: files written by the real writers are read back by the real readers and by libpcap; the 'process dies while writing' fault is enumerated exhaustively as every truncation offset of every generated file, with a writer-side offset log as oracle.",
		LevelNote: trusted,
		Technique: "runtime monitoring: round-trip + independent reader (libpcap) differential, exhaustive crash-point (truncation offset) enumeration per file",
		DesignRef: "DESIGN.md §3 C14",
	})
	add(Spec{
		PropSpec: vlib.PropSpec{
			ID: "C15", Level: "exploration",
			Rule:        "hostile phase: base streams = files written by the library's writers (classic us/ns, pcapng with several interfaces/options/statistics), hand-built snoop captures and the capture fixtures found under /repo; for each base a field walker lists every header field of every block/record/option (block type/length/trailer, SHB, IDB, EPB, ISB fixed fields, every option code and length, if_tsresol value, classic file and record headers, snoop header and record headers) and each field is overwritten with boundary values {0,1,3,4,7,8,11,12,15,16,..,v+-1,v+-4,len,0xffff,0x10000,2^31-1,2^31,2^32-16,2^32-1} in the file's byte order (1 in 8 in the other one), if_tsresol with all 256 values, every option length with 0..16; plus bit flips, byte substitutions, truncation, splices of two files, block repeats, random bytes, and the wrong reader for the format. Each stream is read to the first error with ReadPacketData or ZeroCopyReadPacketData (pcapng: default / WantMixedLinkType / SkipUnknownVersion). Monitors per call: no panic, CPU/heap watchdog, len(data)==CaptureLength<=Length, at most len/4+16 successful calls, bytes allocated by one call (runtime/metrics /gc/heap/allocs:bytes) <= 4 MiB + 4*(stream length + declared snap length) (4 MiB covers bufio and a gzip decompressor). chunking phase: the same stream through 1-byte, 1..7-byte, 4-byte, half and data-with-EOF readers and gzip-wrapped must give the same packets and final error; damaged gzip must not panic. faults phase: an injected I/O error at EVERY byte position of valid files (<= 2 KiB): packets before the position as in the clean run, then an error, never a panic. Non-trivial = stream on which the reader got past the file/section header; distinct by stream hash.",
			Assumptions: []string{"mutated headers keep the declared snap length <= 16 MiB so that a conforming reader stays small", "an injected I/O error may surface as a different (non-nil) error; that is counted, not a violation"},
			Phases: []vlib.Phase{
				{Name: "hostile", Bin: "vchild", Quick: 16, Thorough: 16},
				{Name: "chunking", Bin: "vchild", Quick: 8, Thorough: 16},
				{Name: "faults", Bin: "vchild", Quick: 8, Thorough: 16},
			},
			Require: []string{"streams_past_the_file_header", "header_fields_mutated", "tsresol_values_tried", "chunked_reads_compared", "gzip_reads_compared", "fault_positions_enumerated"},
		},
		LevelText: "Runtime monitoring with sanitizer-style instruments (crash monitor, CPU/heap watchdog, allocation metric) around the real readers on structure-aware corruptions of valid files, chunked/gzip-wrapped variants and exhaustively enumerated I/O fault positions.",
		LevelNote: trusted,
		Technique: "runtime monitoring: structure-aware corruption + crash/CPU/allocation monitors, differential over stream chunkings, exhaustive I/O fault-position injection",
		DesignRef: "DESIGN.md §3 C15",
	})
	decodeCorpus := "Corpus engine: every registered layer type (enumerated at run time) x inputs derived from (1) fixtures harvested from the repository itself - every []byte and hex-string literal of the *_test.go files (go/parser) and every packet of the capture files under /repo (per-interface link type), each decoded once so that the suffix starting at every layer becomes a seed for that layer's type; literals offered to every type and ranked by how far they decode; a fixed-PRNG search and a hand-made table (SCTP chunk packets, CTP, DHCPv6, a DNS message per record type, pktap) for types the fixtures never reach - (2) packets of the core stacks built byte by byte (Ethernet/Dot1Q/IPv4+options/IPv6+hop-by-hop/TCP with every option kind incl. the 9 MPTCP subtypes/UDP/DNS/ICMPv4/ICMPv6/GRE/SCTP/VXLAN/ARP) and (3) mutators: every prefix length, bit flips, byte substitutions {0,1,0x7f,0x80,0xfe,0xff}, length-looking byte +-{1,2,4,8}, 16/32-bit boundary values in both byte orders, splices, block repeats, extensions, grow-region (a length byte/word and the region it covers grown together), double mutations, plus all-0x00/0xff and random strings; deterministic structure-aware variants per seed: tail stretched by k bytes with the 1..5 outermost covering length fields increased by k, one covering field +-k, regions cut to 0..3 bytes with their length field adjusted, and a single-byte sweep over 12 values incl. text separators."
	add(Spec{
		PropSpec: vlib.PropSpec{
			ID: "C19", Level: "exploration", CrashAnywhere: true,
			Rule:        decodeCorpus + " Each (type, input) goes through three unrecovered entry points: NewPacket with SkipDecodeRecovery (Lazy x DecodeStreamsAsDatagrams) + Layers(); DecodeFromBytes of every exported struct type implementing DecodingLayer (constructors generated from the source tree, filed under each layer type it can decode - so implementations that share a layer type or that no packet decoder constructs are included), on a fresh and on a previously used object, followed by NextLayerType/CanDecode/LayerPayload; a DecodingLayerParser over all known decoding layers with IgnorePanic. Any panic, fatal error or CPU/heap runaway is a violation; a returned error is success. Non-trivial = input at least as long as the shortest input on which that type's DecodeFromBytes returned nil in this run; distinct by (type, input hash).",
			Assumptions: []string{"checkptr instrumentation is on (-gcflags=all=-d=checkptr)", "types for which no input ever decoded successfully are listed in the evidence as never entered"},
			Phases: []vlib.Phase{
				{Name: "norecover", Bin: "vchild", Quick: 16, Thorough: 16},
			},
			Require: []string{"prefixes_enumerated", "corpus_layer_types_with_fixture_seeds"},
		},
		LevelText: "Runtime monitoring with a crash monitor, CPU/heap watchdog and checkptr around the real decoders driven through their three unrecovered entry points on a fixture-derived, mutation-based corpus for every registered layer type.",
		LevelNote: trusted,
		Technique: "runtime monitoring: crash/CPU/heap monitors + checkptr on generated hostile inputs (fixture-seeded mutation, exhaustive truncation)",
		DesignRef: "DESIGN.md §3 C19",
	})
	add(Spec{
		PropSpec: vlib.PropSpec{
			ID: "C01", Level: "exploration", CrashAnywhere: true,
			Rule:        decodeCorpus + " total phase: each (type, input) is decoded under all 16 combinations of Lazy/NoCopy/Pool/DecodeStreamsAsDatagrams (recovery on), followed by a PRNG-ordered program of read-only uses with repeats (Layers, Layer of own and foreign types, LayerClass over 7 classes, Link/Network/Transport/Application/ErrorLayer, Metadata, Data, VerifyChecksums, flows, per layer LayerContents/Payload, VerifyChecksum; on 3 of the 16 option sets also String, Dump, LayerString/LayerDump/LayerGoString and %v/%+v of every layer), a 64 KiB tier, every prefix of one seed per type and the tail-stretch variants of 5/60 seeds; for every lazy option set ErrorLayer() is also asked first on a fresh packet and must agree with the fully decoded one. Oracles: no panic / fatal error / CPU-heap runaway; error-layer bookkeeping (every DecodeFailure or ErrorLayer-implementing layer is last, is what ErrorLayer() returns, ErrorLayer() is an element of Layers()); two independent could-not-decode witnesses (the same input panics with recovery off; DecodeFromBytes of the first layer returns an error) imply a non-nil error layer; error-ness agrees across Lazy/NoCopy/Pool for non-empty inputs. shapes phase: structured variants of 3/12 seeds per type - every region announced by a length byte or word cut down to 0..3 bytes (kept, zero, 0xff or small-type content) with the field adjusted, and the tail-stretch variants - each through one eager and one lazy packet with every renderer and accessor (the tiny-but-consistent options and identifiers that String methods meet for the first time). wellformed phase: packets built byte by byte with correct lengths and checksums must decode with a nil error layer and no truncation flag under all 16 option sets. Non-trivial = packet with >= 2 layers or an error layer; distinct by (type, input hash). scripted phase: a layer type registered by the harness whose decoder is scripted by the input bytes - each step adds one or two layers, claims the link/network/transport/application slot, marks truncation, hands over to itself, to the payload decoder, to a registered type or to a nil decoder, returns an error before or after adding its layer, panics, swallows the rest, or stops; every script of up to 3 (thorough 4) steps plus PRNG scripts: the part of the PacketBuilder protocol the library's own decoders never use is explored too. Each script goes through the total phase's oracle (16 option sets, accessors, bookkeeping).",
			Assumptions: []string{"'everything decoded => error layer nil' is asserted only where it is known by construction (well-formed constructed packets)", "checkptr instrumentation is on"},
			Phases: []vlib.Phase{
				{Name: "total", Bin: "vchild", Quick: 16, Thorough: 16},
				{Name: "wellformed", Bin: "vchild", Quick: 8, Thorough: 16},
				{Name: "shapes", Bin: "vchild", Quick: 16, Thorough: 16},
				{Name: "scripted", Bin: "vchild", Quick: 16, Thorough: 16},
			},
			Require: []string{"prefixes_enumerated", "well_formed_packets", "corpus_layer_types_with_fixture_seeds"},
		},
		LevelText: "Runtime monitoring: crash monitor, CPU/heap watchdog and checkptr around decoding and every later read-only use for every registered first layer type and all recovery-on option sets, plus an error-layer bookkeeping monitor with independent witnesses.",
		LevelNote: trusted,
		Technique: "runtime monitoring: crash/CPU/heap monitors + checkptr + invariant monitor (error-layer bookkeeping) over a fixture-seeded mutation corpus",
		DesignRef: "DESIGN.md §3 C01",
	})
	add(Spec{
		PropSpec: vlib.PropSpec{
			ID: "C02", Level: "exploration",
			Rule:        decodeCorpus + " determinism phase: for each (type, input, one of the 16 recovery-on option sets): the canonical signature (layer types, every field of every layer incl. unexported ones, contents, payloads, special-layer indices, metadata, Data(), String()) of the packet decoded from an exact copy is compared with (1) a second decode after 1..5 other corpus packets of any type were decoded and rendered, (1b) a decode of the same bytes embedded in a larger buffer with other content behind them (spare capacity), (2) a decode from a read-only mmap'ed region that ends at an inaccessible guard page, followed by the whole read-only accessor program of C01 (VerifyChecksums, String, Dump, LayerGoString ...): a write faults (write-to-input), a read past the end faults (read-beyond-input); the buffer is byte-compared afterwards. concurrent phase (race build, GOMAXPROCS=8): (3) 4..8 goroutines decode overlapping sets of inputs simultaneously and compare with the sequential signatures; (4) 4..8 goroutines run the accessor program incl. VerifyChecksums (network layer attached) and String on ONE eager packet (Default and NoCopy): equal answers, packet signature, Data() and the caller's buffer unchanged afterwards, race detector log parsed. Non-trivial = packet with >= 3 layers (determinism) / >= 3 layers and a checksum-carrying layer (shared readers); distinct by (type, input hash).",
			Assumptions: []string{"signature equality is the definition of 'identical packet' (nil and empty slices equal; addresses and capacities ignored; DecodeFailure stack text ignored)", "debug.SetPanicOnFault turns faults on the read-only/guard pages into recoverable panics"},
			Phases: []vlib.Phase{
				{Name: "determinism", Bin: "vchild", Quick: 16, Thorough: 16},
				{Name: "concurrent", Bin: "vchild", Race: true, Quick: 2, Thorough: 4, Procs: 8, Parallel: 2},
			},
			Require: []string{"read_only_placements", "concurrent_decodes", "shared_packet_reader_groups", "shared_packets_with_checksum_layers"},
		},
		LevelText: "Runtime monitoring with sanitizers: read-only input pages + guard page (writes and over-reads fault), the Go race detector over concurrent decoders and concurrent readers of one eager packet, and a self-differential oracle (canonical signatures) for history and placement independence.",
		LevelNote: trusted,
		Technique: "runtime monitoring: read-only/guard-page memory sanitizer, Go race detector, self-differential signature oracle",
		DesignRef: "DESIGN.md §3 C02",
	})
	add(Spec{
		PropSpec: vlib.PropSpec{
			ID: "C03", Level: "exploration",
			Rule:        decodeCorpus + " For every non-empty (type, input) and NoCopy/DecodeStreamsAsDatagrams on/off, accessor programs are run side by side on the eager packet and on a fresh lazy packet: for every own layer type the program that starts with Layer(that type); every special-layer accessor as first call; an every-prefix tier (all prefixes of 4/40 seeds per type, each first-call accessor - link, network, transport, application, error layer, Layer of every own type, every class - asked first); every ordered pair of Layer(own type) calls for packets of <= 5 layers; and PRNG programs of 1..12 calls (with immediate repeats) over {Layer(own/foreign type), LayerClass(7 classes), LinkLayer, NetworkLayer, TransportLayer, ApplicationLayer, ErrorLayer, Layers, String, Dump}. After every step the results are compared (nil-ness, layer type, all field values, contents, payload; whole list for Layers; text for String/Dump), and at the end the full packet signatures incl. truncation flag and String(). Non-trivial = packet with >= 3 layers and a program whose first call does not request all layers; distinct by (type, input, program) hash. scripted phase: a layer type registered by the harness whose decoder is scripted by the input bytes - each step adds one or two layers, claims the link/network/transport/application slot, marks truncation, hands over to itself, to the payload decoder, to a registered type or to a nil decoder, returns an error before or after adding its layer, panics, swallows the rest, or stops; every script of up to 3 (thorough 4) steps plus PRNG scripts: the part of the PacketBuilder protocol the library's own decoders never use is explored too. Each script is compared lazy against eager with every first-call accessor.",
			Assumptions: []string{"Dump() is not compared when the packet ends in a DecodeFailure: its text contains the goroutine stack of the recovered panic"},
			Phases: []vlib.Phase{
				{Name: "lazy", Bin: "vchild", Quick: 16, Thorough: 16},
				{Name: "scripted", Bin: "vchild", Quick: 16, Thorough: 16},
			},
			Require: []string{"accessor_programs"},
		},
		LevelText: "Runtime monitoring by differential execution: the same real decoder in its lazy and eager configuration is driven by generated accessor programs and every observable result is compared step by step.",
		LevelNote: trusted,
		Technique: "runtime monitoring: differential oracle between two configurations (lazy vs eager) under generated accessor programs",
		DesignRef: "DESIGN.md §3 C03",
	})
	add(Spec{
		PropSpec: vlib.PropSpec{
			ID: "C04", Level: "exploration",
			Rule:        "isolation phase: inputs of the lengths 0, 1, 1499, 1500, 1501, 3000, 65535 (always), PRNG lengths around the pool block size (1400..1600) and corpus inputs of every registered layer type; (1) a packet decoded with the default options, and one decoded with Pool, is signed, then the caller's buffer is complemented and its spare capacity written: the packet's signature (all layers, fields, payloads, Data(), String()) must not change; (2) the signatures under NoCopy, Pool and Pool+NoCopy must equal the default one. pool phase (race build, GOMAXPROCS=8): 2..16 goroutines run PRNG histories of NewPacket(Pool) / hold / Dispose (4 000..20 000 ops each, up to 7 packets held per goroutine, lengths incl. 0,1,1499,1500,1501,3000); a mutex-protected registry maps backing-array base address -> owner, updated so that it cannot false-alarm (removed BEFORE Dispose, inserted AFTER NewPacket returned): an insert that finds the address present means two undisposed pooled packets share a block; every holder re-checks signature and Data() right before disposing; the race detector log is parsed. Non-trivial = isolation case with >= 3 layers or length >= 1499; pool history with >= 2 live packets and at least one observed block reuse; distinct by input hash / (round, batch).",
			Assumptions: []string{"the registry's own mutex adds happens-before edges only between harness operations (insert/remove), not inside NewPacket/Dispose"},
			Phases: []vlib.Phase{
				{Name: "isolation", Bin: "vchild", Quick: 16, Thorough: 16},
				{Name: "pool", Bin: "vchild", Race: true, Quick: 2, Thorough: 4, Procs: 8, Parallel: 2},
			},
			Require: []string{"pool_histories", "pool_block_reuses_observed"},
		},
		LevelText: "Runtime monitoring: post-decode mutation of the caller's buffer with signature comparison (copy isolation), differential over the NoCopy/Pool configurations, and an aliasing monitor (live-block registry keyed by backing-array address) under a concurrent NewPacket/Dispose stress with the Go race detector.",
		LevelNote: trusted,
		Technique: "runtime monitoring: aliasing monitor on live pool blocks + Go race detector + differential signature oracle",
		DesignRef: "DESIGN.md §3 C04",
	})
	add(Spec{
		PropSpec: vlib.PropSpec{
			ID: "C05", Level: "exploration",
			Rule:        "parser phase: inputs = well-formed constructed packets of the core stacks, their mutations, corpus inputs for Ethernet and for each core layer as first layer; layer sets = PRNG subsets of {Ethernet, Dot1Q, IPv4, IPv6, TCP, UDP, ICMPv4, ICMPv6, DNS, ARP, GRE, VXLAN, LLC, SNAP, Payload} (thorough: additionally all 256 subsets of the first 8, round robin); containers = map, sparse array, linear array and a user-written one. For each (input, set, container) DecodeLayers is compared with NewPacket(NoCopy, DecodeStreamsAsDatagrams): the reported types must be exactly the leading run of the packet's layers up to the first error layer or type outside the set (one layer shorter only where the packet contains the half-decoded layer of a decode function that adds its layer before returning the error, confirmed by calling the same DecodeFromBytes on the same bytes); every decoded layer object (last occurrence per type) must have the same exported field values (at every depth), contents and payload as the packet's layer (unexported scratch fields are not observable and not compared; flows are compared through their accessors); Truncated flags must agree; the four containers must agree on (types, error, truncated). stale phase: sequences of 100 packets (constructed with and without IP options, TCP options incl. MPTCP, VLAN, hop-by-hop, DNS, SCTP..., mutated, corpus) are decoded into the SAME layer objects and, each, into fresh objects: results and every decoded layer's signature must be equal. Non-trivial = >= 2 decoded layers; distinct by (input, set) hash.",
			Assumptions: []string{"packets containing an IPv6 hop-by-hop layer are skipped in the layer-by-layer comparison: packet decoding shows that header as a layer of its own, the IPv6 decoding layer keeps it inside IPv6", "which error value the parser returns is not part of the property"},
			Phases: []vlib.Phase{
				{Name: "parser", Bin: "vchild", Quick: 16, Thorough: 16},
				{Name: "stale", Bin: "vchild", Quick: 16, Thorough: 16},
			},
			Require: []string{"parser_comparisons", "reuse_comparisons"},
		},
		LevelText: "Runtime monitoring by differential execution: the preallocated-layer parser against full packet decoding of the same bytes (field-level signature comparison), across lookup containers, and reused against fresh layer objects over packet sequences.",
		LevelNote: trusted,
		Technique: "runtime monitoring: differential oracle (parser vs NewPacket; reused vs fresh objects) with canonical signatures",
		DesignRef: "DESIGN.md §3 C05",
	})
	add(Spec{
		PropSpec: vlib.PropSpec{
			ID: "C06", Level: "exploration",
			Rule:        "roundtrip phase: layer values x = every serializable layer of every error-free packet obtained by decoding corpus inputs (fixtures, capture files, constructed packets, their mutations) as each registered layer type; payload P = the layer's decoded payload. b1 = bytes(x, FixLengths+ComputeChecksums) must decode as x's type with no error, no truncation flag raised by that layer's decoder, and payload P; the decoded layer L1 must equal x (as the serializer left it after fixing its length and checksum fields in place) in every exported field at every depth, lists in order, except fields that are derived (name contains len/length/size/count/num/checksum/crc/fcs/padding/pad/ihl/dataoffset/offset/reserved; raw RDATA copies of DNS records) - those are covered by the fixpoint: L1 written again must give exactly b1 and decode to the same field values. Layer types without a decoder of their own (SCTP chunks) are covered inside their parent by the stacks phase. stacks phase: constructed Ethernet stacks (VLAN, IPv4 with options, IPv6 with extension headers, TCP with options, UDP, ICMPv4/6 incl. NDP options, DNS, ARP, GRE, VXLAN, SCTP ...) are decoded, written with SerializeLayers, decoded (same layer types, same fields, no truncation), and SerializePacket of that packet must reproduce the bytes. built phase: stacks built from in-range field values through the public struct fields (Ethernet, 0-2 VLAN tags, IPv4 with aligned option lists / IPv6 with hop-by-hop and destination headers carrying 1-4 TLV options of 0..13 data bytes so that every residue of the header length mod 8 occurs, routing header; GRE with checksum/key/sequence/routing/ack combinations around a second IP header; TCP with aligned option lists, UDP, DNS with A/AAAA/NS/CNAME/PTR/MX/SRV/SOA/TXT records, ICMPv4, ICMPv6 echo and the four NDP messages with 0-4 options, VXLAN, SCTP data, ARP, unknown IP protocol) over payloads of 0, 1, 2, 3, 17, 45..47, 255, 1471..1473, 9001, 65000 and random sizes and IPv6/TCP jumbograms of 65536, 65537, 70001 bytes: SerializeLayers must succeed, the bytes must decode without error or truncation flag to the same layer types, every built layer must equal the decoded layer in all exported fields except derived ones (alignment pad options excluded), the payload must come back, and SerializePacket of the decoded packet must reproduce the bytes. Non-trivial = round trip with a non-empty payload; distinct by (type, fields, payload) hash. The built phase makes every eighth stack a boundary stack (plain Ethernet/IPv4|IPv6/UDP|TCP|ICMPv4 with a payload within 10 bytes of the largest size the length fields express; beyond the IPv4 limit the writer must refuse, beyond the IPv6 limit the packet becomes a jumbogram); the roundtrip phase adds a single-byte sweep (every position of 3/40 seeds per type x 12 values incl. '.', backslash, '/', ':', '@', 0xc0) because values such as a DNS label containing a dot arise only from decoding.",
			Assumptions: []string{"field comparison covers exported fields; Contents/Payload of the embedded BaseLayer are compared as bytes through the round trip, not as struct fields", "transport checksums use the enclosing IPv4/IPv6 layer of the source packet as pseudo-header", "an Ethernet payload shorter than 46 bytes comes back zero-padded to 46 bytes (minimum frame size; the frame carries no length), and a stack shorter than 60 bytes decodes with that padding as a trailing all-zero Payload layer: both are accepted", "a serializer that returns an error for a decoded value is counted (part_B_serializer_returned_error), not flagged: the statement is about written layers", "layer values taken from packets that decoded with the truncation flag are not used (a jumbo length without its data is inconsistent by construction)", "the payload of a jumbo IPv6 header is what follows its hop-by-hop header (LayerPayload includes that header, pinned by TestIPv6JumbogramDecode)"},
			Phases: []vlib.Phase{
				{Name: "roundtrip", Bin: "vchild", Quick: 16, Thorough: 16},
				{Name: "stacks", Bin: "vchild", Quick: 16, Thorough: 16},
				{Name: "built", Bin: "vchild", Quick: 16, Thorough: 16},
			},
			Require: []string{"part_B_roundtrips", "stacks_round_tripped", "built_stacks_round_tripped"},
		},
		LevelText: "Runtime monitoring with a round-trip oracle: decode(serialize(x)) against x (canonical signatures of exported fields), serialize(decode(b)) against b, over layer values harvested from decoding and mutation of a fixture/capture/constructed corpus for every registered layer type.",
		LevelNote: trusted,
		Technique: "runtime monitoring: round-trip oracle (serialize->decode->serialize fixpoint) with canonical field signatures over corpus-harvested layer values",
		DesignRef: "DESIGN.md §3 C06",
	})
	add(Spec{
		PropSpec: vlib.PropSpec{
			ID: "C07", Level: "exploration",
			Rule:        "buffers phase: every serializable layer that decoding any corpus input (incl. mutated inputs whose packet ends in an error layer) produced is written, for each of the four FixLengths/ComputeChecksums combinations, from identical deep copies into: a fresh buffer, a buffer pre-sized with PRNG (prepend, append) sizes, a pre-sized (0,0) buffer, a buffer that held 2048+2048 bytes of 0xAA/0x55 and was cleared, two poisoned buffers (a SerializeBuffer implementation that fills every returned slice with 0xA5 resp. 0x5A - a never-written byte differs between the two), and the same struct twice. A panic in any of them is a violation (keyed by panic site); all must agree on error-or-not and, when no error, on the bytes. fields phase (layer values built through public fields): on each decoded layer 1-3 exported fields chosen by a PRNG (at any depth: numbers set to 0/1/max/random, bools flipped, byte slices and lists set to nil, shortened, cut, doubled or replaced by 1..70000 elements, pointers set to nil or to a new zero value, strings randomised) are changed - the same change, replayed from its seed, on four independent copies - and the value is written with a PRNG option set over the decoded payload or a payload of 0/1/3/1473/65535/65536/70001 bytes into a fresh, a dirty and the two poisoned buffers: no panic, same error-or-not, same bytes. zero phase: for every exported struct type of the library that implements SerializableLayer (constructors generated from the source tree before each build, so no type is missed because no corpus input decodes to it) the zero value and values grown from it by setting 1-5 public fields are written the same way (all four option sets, payloads of 0/1/5/40/1473 bytes, with and without an IPv4/IPv6 network layer for the checksum): same oracle. Built with -d=checkptr. Non-trivial = output longer than payload+4; distinct by (type, output, payload length).",
			Assumptions: []string{"layer values built through public fields are represented by decoded values with 1-3 fields changed and by zero values with 0-5 fields set"},
			Phases: []vlib.Phase{
				{Name: "buffers", Bin: "vchild", Quick: 16, Thorough: 16},
				{Name: "fields", Bin: "vchild", Quick: 16, Thorough: 16},
				{Name: "zero", Bin: "vchild", Quick: 16, Thorough: 16},
			},
			Require: []string{"serializations_compared", "constructed_values_serialized", "zero_values_serialized"},
		},
		LevelText: "Runtime monitoring: panic monitor plus a differential oracle over serialize-buffer histories, including poisoned buffers that expose requested-but-unwritten bytes (MSan-style), on layer values harvested from decoding hostile inputs; checkptr instrumentation.",
		LevelNote: trusted,
		Technique: "runtime monitoring: panic monitor + buffer-history differential with poisoned SerializeBuffer (uninitialised-byte detector), checkptr build",
		DesignRef: "DESIGN.md §3 C07",
	})
}
