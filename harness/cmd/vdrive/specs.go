package main

import "verif/harness/internal/vlib"

const trusted = "Trusted base: the Go toolchain/runtime (race detector, checkptr), the harness's own oracles (reference models in /verif/harness, independent of gopacket code), and that cases derive deterministically from VERIF_SEED. The verdict covers only the executions produced; inputs/schedules never generated are not covered."

func init() {
	add(Spec{
		PropSpec: vlib.PropSpec{
			ID: "C17", Level: "exploration",
			Rule: "laws phase: per round a pool of 200 endpoints over 13 endpoint types (registered + unregistered, negative, >32bit) with byte strings of length 0..16 generated to share prefixes, differ only in length / trailing zeros / one bit / type; all 40 000 ordered pairs and all ordered triples are evaluated against the (type,bytes) model. layers phase: Ethernet/IPv4|IPv6/TCP|UDP|SCTP|UDPLite|RUDP packets built byte-by-byte by the harness (addresses known), decoded eagerly and lazily, forward and with addresses swapped, plus FDDI/LinuxSLL/PPP and parser-reused layers. distinct_nontrivial = distinct (type,bytes) endpoints + distinct packets (by content hash); every generated case is non-trivial by construction (no empty pools).",
			Assumptions: []string{"endpoint pools and packets are PRNG generated; 'all pairs/triples' is exhaustive only within each pool"},
			Phases: []vlib.Phase{
				{Name: "laws", Bin: "vchild", Quick: 4, Thorough: 16},
				{Name: "layers", Bin: "vchild", Quick: 8, Thorough: 16},
			},
			Require: []string{"endpoint_pairs", "ordered_triples", "flows_checked", "reused_layer_flows", "oversize_rejections_checked"},
		},
		LevelText: "Runtime monitor: algebraic laws of Endpoint/Flow evaluated against an independent (type,bytes) model on generated value pools (all pairs and triples per pool), and flows of decoded layers compared with the addresses the harness itself put on the wire. Exploration: holds on the values generated, not for all values.",
		LevelNote: trusted,
		Technique: "runtime monitoring: reference-model oracle over generated values + decoded-layer flow monitor",
		DesignRef: "DESIGN.md §3 C17",
	})
	add(Spec{
		PropSpec: vlib.PropSpec{
			ID: "C18", Level: "exploration",
			Rule: "exhaustive phase: every sequence over the alphabet {P0,P1,P3,P8,P100,A0,A1,A3,A8,A100,Clear,Push} of length <= 5 (quick) / <= 7 (thorough) x 6 initial hints (NewSerializeBuffer, ExpectedSize (0,0),(1,0),(0,1),(8,8),(100,3)); for sequences up to length 5 every still-valid earlier returned slice is rewritten after every op. random phase: 50..500 ops, sizes up to 70 000, incl. rewrites through earlier slices. stack phase: SerializeLayers over 0..6 stub layers (prepend + optional trailer append, injected errors) on fresh/pre-sized/dirty buffers. After every op Bytes()/Layers() are compared with a reference deque in virtual coordinates and the returned slice is checked by address to be the window at its position. Non-trivial = sequence with a non-empty prepend AND a non-empty append (exhaustive), every random sequence, stacks of >= 2 layers; distinct by (hint, op list) hash.",
			Assumptions: []string{"bounded-depth enumeration is complete only for the stated alphabet, depth and hints"},
			Phases: []vlib.Phase{
				{Name: "exhaustive", Bin: "vchild", Quick: 16, Thorough: 16},
				{Name: "random", Bin: "vchild", Quick: 8, Thorough: 16},
				{Name: "stack", Bin: "vchild", Quick: 4, Thorough: 8},
			},
			Require:    []string{"sequences_enumerated", "random_ops", "stacks_checked", "stack_error_cases"},
			Exhaustive: func(string) bool { return true },
		},
		LevelText: "Runtime monitor: the real SerializeBuffer is driven through every operation sequence of a bounded alphabet/depth (complete enumeration, so exhaustive:true refers to that bounded space) and long random sequences, with an independent reference deque compared after every operation and address-window checks on returned slices.",
		LevelNote: trusted,
		Technique: "runtime monitoring: reference-model (deque) comparison after every operation, bounded-exhaustive + random operation histories",
		DesignRef: "DESIGN.md §3 C18",
	})
}
