package main

import "verif/harness/internal/vlib"

const trusted = "Trusted base: the Go toolchain/runtime (race detector, checkptr), the harness's own oracles (reference models in /verif/harness, independent of gopacket code), and that cases derive deterministically from VERIF_SEED. The verdict covers only the executions produced; inputs/schedules never generated are not covered."

func init() {
	add(Spec{
		PropSpec: vlib.PropSpec{
			ID: "C17", Level: "exploration",
			Rule: "laws phase: per round a pool of 200 endpoints over 13 endpoint types (registered + unregistered, negative, >32bit) with byte strings of length 0..16 generated to share prefixes, differ only in length / trailing zeros / one bit / type; all 40 000 ordered pairs and all ordered triples are evaluated against the (type,bytes) model. layers phase: Ethernet/IPv4|IPv6/TCP|UDP|SCTP|UDPLite|RUDP packets built byte-by-byte by the harness (addresses known), decoded eagerly and lazily, forward and with addresses swapped, plus FDDI/LinuxSLL/PPP and parser-reused layers. distinct_nontrivial = distinct (type,bytes) endpoints + distinct packets (by content hash); every generated case is non-trivial by construction (no empty pools).",
			Assumptions: []string{"endpoint pools and packets are PRNG generated; 'all pairs/triples' is exhaustive only within each pool"},
			Phases: []vlib.Phase{
				{Name: "laws", Bin: "vchild", Quick: 4, Thorough: 16},
				{Name: "layers", Bin: "vchild", Quick: 8, Thorough: 16},
			},
			Require: []string{"endpoint_pairs", "ordered_triples", "flows_checked", "reused_layer_flows", "oversize_rejections_checked"},
		},
		LevelText: "Runtime monitor: algebraic laws of Endpoint/Flow evaluated against an independent (type,bytes) model on generated value pools (all pairs and triples per pool), and flows of decoded layers compared with the addresses the harness itself put on the wire. Exploration: holds on the values generated, not for all values.",
		LevelNote: trusted,
		Technique: "runtime monitoring: reference-model oracle over generated values + decoded-layer flow monitor",
		DesignRef: "DESIGN.md §3 C17",
	})
}
