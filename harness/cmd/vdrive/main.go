// vdrive is the driver of every property check: it plans nothing itself (children derive their cases from the
// seed), spawns the child processes of each phase, aggregates what they observed, matches known findings and
// writes /verif/evidence/<ID>.json. It never runs gopacket code.
package main

import (
	"flag"
	"fmt"
	"os"
	"strconv"

	"verif/harness/internal/vlib"
)

func main() {
	prop := flag.String("prop", "", "property id")
	tier := flag.String("tier", "", "quick|thorough (default $VERIF_TIER or quick)")
	replay := flag.String("replay", "", "replay file")
	bins := flag.Bool("bins", false, "print the binaries (name[:race]) a property needs")
	manifest := flag.Bool("manifest", false, "print MANIFEST.json")
	flag.Parse()
	if *manifest {
		printManifest()
		return
	}
	if *replay != "" {
		ps := map[string]vlib.PropSpec{}
		for k, v := range specs {
			ps[k] = v.PropSpec
		}
		os.Exit(vlib.ReplayMain(ps, *replay))
	}
	spec, ok := specs[*prop]
	if !ok {
		fmt.Fprintf(os.Stderr, "unknown property %q\n", *prop)
		os.Exit(2)
	}
	if *bins {
		seen := map[string]bool{}
		for _, ph := range spec.Phases {
			n := ph.Bin
			if ph.Race {
				n += ":race"
			}
			if !seen[n] {
				fmt.Println(n)
				seen[n] = true
			}
		}
		return
	}
	t := *tier
	if t == "" {
		t = os.Getenv("VERIF_TIER")
	}
	if t != "thorough" {
		t = "quick"
	}
	seed := uint64(1)
	if s := os.Getenv("VERIF_SEED"); s != "" {
		if v, err := strconv.ParseUint(s, 10, 64); err == nil {
			seed = v
		} else if v, err := strconv.ParseInt(s, 10, 64); err == nil {
			seed = uint64(v)
		}
	}
	os.Exit(vlib.DriverMain(spec.PropSpec, t, seed))
}
