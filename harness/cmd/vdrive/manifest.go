package main

import (
	"encoding/json"
	"fmt"
	"os"
	"os/exec"
	"sort"
	"strings"

	"verif/harness/internal/vlib"
)

// Spec = what the driver needs to run a check + what MANIFEST.json says about it.
type Spec struct {
	vlib.PropSpec
	LevelText string
	LevelNote string
	Technique string
	DesignRef string
}

var specs = map[string]Spec{}

func add(s Spec) { specs[s.ID] = s }

var notApplicable = []map[string]string{}

func hookCommits() []string {
	out, err := exec.Command("git", "-C", "/repo", "log", "--format=%H %s").Output()
	if err != nil {
		return []string{}
	}
	cs := []string{}
	for _, l := range strings.Split(string(out), "\n") {
		if strings.Contains(l, " verif-hook:") {
			cs = append(cs, strings.Fields(l)[0])
		}
	}
	return cs
}

func printManifest() {
	var ids []string
	for id := range specs {
		ids = append(ids, id)
	}
	sort.Strings(ids)
	var checks []map[string]any
	for _, id := range ids {
		s := specs[id]
		checks = append(checks, map[string]any{
			"property_id":         id,
			"quick_cmd":           "/verif/run " + id + " quick",
			"thorough_cmd":        "/verif/run " + id + " thorough",
			"evidence_file":       "/verif/evidence/" + id + ".json",
			"replay_cmd_template": "/verif/run " + id + " replay {path}",
			"engine":              "vdrive",
			"level_claimed":       map[string]string{"category": s.Level, "text": s.LevelText, "design_ref": s.DesignRef},
			"level_note":          s.LevelNote,
			"technique":           s.Technique,
		})
	}
	na := append([]map[string]string{}, notApplicable...)
	for i := 1; i <= 20; i++ {
		id := fmt.Sprintf("C%02d", i)
		if _, ok := specs[id]; !ok {
			na = append(na, map[string]string{"property_id": id, "reason": "no check registered in this revision of /verif (the technique applies; the monitor is not built yet) - not claimed"})
		}
	}
	m := map[string]any{
		"version":   1,
		"setup_cmd": "/verif/run build",
		"hooks": map[string]any{
			"guard":            "verif",
			"enable":           "go build -tags verif (children are built by /verif/run from /verif/harness with `replace github.com/gopacket/gopacket => /repo`)",
			"baseline_off_cmd": "cd /repo && . /verif/env.sh && $VGO test -vet=off -count=1 -timeout 25m ./...",
			"source_commits":   hookCommits(),
			"add_only":         true,
		},
		"engines": []map[string]any{
			{"name": "vdrive", "path": "/verif/harness", "serves_properties": ids,
				"kind_free_text": "runtime monitoring: driver + child processes running the real gopacket code under generated/hostile/stress workloads with the Go race detector, checkptr, read-only input pages, CPU/heap watchdogs and hand-written reference-model / differential / history oracles (incl. porcupine)"},
		},
		"checks":         checks,
		"not_applicable": na,
		"notes":          "All checks are runtime monitors over executions of the real code; nothing is proved. known findings: /verif/known_findings.txt. Design: /verif/DESIGN.md.",
	}
	b, _ := json.MarshalIndent(m, "", " ")
	fmt.Fprintln(os.Stdout, string(b))
}
