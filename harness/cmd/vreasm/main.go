// vreasm hosts the monitors of package reassembly (separate binary: see vtcpasm).
package main

import "verif/harness/internal/vlib"

func main() { vlib.ChildMain() }
