package main

import (
	"fmt"
	"time"

	"github.com/gopacket/gopacket/reassembly"

	"verif/harness/internal/asm"
	"verif/harness/internal/vlib"
)

func init() {
	vlib.Register("C11", "reassembly", c11Reasm)
}

const pageBytes = 1900

func pagesOf(n int) int {
	if n <= 0 {
		return 1
	}
	return (n + pageBytes - 1) / pageBytes
}

type skipRec struct {
	skip int
	seen time.Time
}

func c11Reasm(c *vlib.Ctx) {
	n := c.Pick(60, 1200)
	for i := 0; i < n; i++ {
		if !c.Begin(i) {
			continue
		}
		rd := c.Rand(uint64(i))
		p := asm.Params{Conns: rd.Range(5, c.Pick(40, 120)), MaxStream: 6000, Flushes: true, MidFlushAll: rd.Chance(1, 3), NoSYN: 6, CloseProb: 70, Both: true, JitterTS: rd.Chance(1, 3)}
		if rd.Chance(1, 3) {
			p.BigSegs = rd.Bool()
			p.MixSizes = !p.BigSegs
			p.Stall = 2
			p.MaxStream = 20000
		}
		p.EarlyFIN = 4
		h := asm.Gen(rd, p)
		switch rd.Intn(9) {
		case 6: // both limits at once: the total must still be enforced on a connection that is under its own limit
			h.PerConnLimit, h.TotalLimit = 6, 8
		case 7:
			h.PerConnLimit, h.TotalLimit = 5, 3
		case 8:
			h.PerConnLimit, h.TotalLimit = 2, 10
		case 0:
			h.PerConnLimit = 1
		case 1:
			h.PerConnLimit = 2
		case 2:
			h.PerConnLimit = 5
		case 3:
			h.TotalLimit = 3
		case 4:
			h.TotalLimit = 10
		}
		r := newRRun(c, h)
		r.noContent = h.Features["earlyfin"] // data past a FIN makes the content oracle of C09/C10 meaningless; lifecycle audits still apply
		if rd.Chance(1, 2) {
			r.keepPct, r.keepRand = []int{10, 40}[rd.Intn(2)], vlib.NewRand(rd.U64())
		}
		r.refuse = rd.Chance(1, 5)
		r.viol = func(key, desc string) {
			c.Violation(key, desc, map[string]any{"history_conns": len(h.Conns), "limits": fmt.Sprintf("per-conn=%d total=%d", h.PerConnLimit, h.TotalLimit), "keep_percent": r.keepPct, "refuse_removal": r.refuse, "call": r.cc.Call, "history_prefix": prefixOf(h, r.cc.Call)})
		}
		pool := reassembly.NewStreamPool(r)
		a := reassembly.NewAssembler(pool)
		a.MaxBufferedPagesPerConnection = h.PerConnLimit
		a.MaxBufferedPagesTotal = h.TotalLimit
		var skips []skipRec
		r.onDeliver = func(s *rstream, dir int, skip int, seen time.Time) {
			if skip != 0 {
				skips = append(skips, skipRec{skip, seen})
			}
		}
		ageReleased, limitReleased := 0, 0
		audit := func(ev *asm.Ev) {
			snap := reassembly.VerifPoolSnapshot(pool)
			used := reassembly.VerifPagesUsed(a)
			held := 0
			for _, v := range snap {
				for _, hf := range []reassembly.VerifHalf{v.C2S, v.S2C} {
					if !hf.Closed {
						held += hf.QueuedPages
					}
					held += hf.SavedPages
				}
			}
			if debugDeliveries {
				fmt.Printf("after call %d (%v): used=%d held=%d\n", r.cc.Call, ev.Kind, used, held)
			}
			if used != held {
				key := "page-accounting-leak"
				if r.keepPct > 0 {
					key += ":with-kept-bytes"
				}
				r.viol(key, fmt.Sprintf("pages in use = %d but live connections hold %d queued+saved pages", used, held))
			}
			switch ev.Kind {
			case asm.EvSeg:
				pk := pagesOf(len(ev.Seg.Data))
				if len(skips) > 0 {
					limitReleased++
				}
				if h.PerConnLimit > 0 {
					for _, v := range snap {
						s, ok := v.Stream.(*rstream)
						if !ok || s.conn != ev.Seg.Conn {
							continue
						}
						hf := v.C2S
						if ev.Seg.Dir != s.c2s {
							hf = v.S2C
						}
						if !hf.Closed && hf.QueuedPages > h.PerConnLimit+pk {
							key := "per-connection-limit-exceeded"
							if pk > 1 {
								key += ":multi-page-packet"
							}
							r.viol(key, fmt.Sprintf("direction holds %d out-of-order pages after a %d-page packet, limit %d", hf.QueuedPages, pk, h.PerConnLimit))
						}
					}
				}
				queuedAll := 0
				for _, v := range snap {
					for _, hf := range []reassembly.VerifHalf{v.C2S, v.S2C} {
						if !hf.Closed {
							queuedAll += hf.QueuedPages
						}
					}
				}
				if h.TotalLimit > 0 && queuedAll > h.TotalLimit+pk {
					key := "total-limit-exceeded"
					if pk > 1 {
						key += ":multi-page-packet"
					}
					r.viol(key, fmt.Sprintf("%d pages held for out-of-order data after a %d-page packet, total limit %d", queuedAll, pk, h.TotalLimit))
				}
			case asm.EvFlushOlder:
				cut := lt(ev.Cut)
				for _, v := range snap {
					for _, hf := range []reassembly.VerifHalf{v.C2S, v.S2C} {
						if !hf.Closed && hf.QueuedPages > 0 && hf.FirstQueued.Before(cut) {
							r.viol("age-flush-left-old-data-waiting", fmt.Sprintf("after FlushCloseOlderThan(%d) connection %s still waits in front of a page seen at %v", ev.Cut, v.Key, hf.FirstQueued.Sub(tBase)))
						}
					}
				}
				for _, s := range skips {
					if !s.seen.Before(cut) {
						r.viol("age-flush-released-newer-data", fmt.Sprintf("FlushCloseOlderThan(%d) skipped a gap (skip=%d) to release data seen at %v, which is not older than the cut-off", ev.Cut, s.skip, s.seen.Sub(tBase)))
					}
				}
				if len(skips) > 0 {
					ageReleased++
				}
			case asm.EvFlushAll:
				for _, v := range snap {
					if s, ok := v.Stream.(*rstream); !ok || s.accepted || s.completed == 0 {
						r.viol("connections-left-after-flushall", fmt.Sprintf("connection %s whose stream accepted removal (or was never completed) remains in the pool after FlushAll", v.Key))
					}
				}
				if used != 0 {
					key := "pages-in-use-after-flushall"
					if r.keepPct > 0 {
						key += ":with-kept-bytes"
					}
					r.viol(key, fmt.Sprintf("%d pages in use after FlushAll", used))
				}
				for _, s := range r.streams {
					if s.completed != 1 {
						r.viol("completion-count", fmt.Sprintf("stream %d was completed %d times after FlushAll (refuse=%v)", s.id, s.completed, r.refuse))
					}
				}
			}
			skips = skips[:0]
		}
		if pi := r.play(a, audit); pi != nil {
			c.Violation(pi.Key, "assembler panicked: "+pi.Value, map[string]any{"stack": pi.Stack})
			c.End()
			continue
		}
		c.Count("reassembly_histories", 1)
		c.Count("reassembly_api_calls_audited", len(h.Evs))
		c.Count("reassembly_streams_created", len(r.streams))
		c.Count("reassembly_age_flushes_that_released_data", ageReleased)
		c.Count("reassembly_limit_forced_releases", limitReleased)
		if r.refuse {
			c.Count("reassembly_histories_with_streams_refusing_removal", 1)
		}
		if r.keepPct > 0 {
			c.Count("reassembly_histories_with_keep", 1)
		}
		if ageReleased > 0 && limitReleased > 0 {
			c.NonTrivial(vlib.Mix(vlib.HashString(h.String()), 9))
		}
		if c.WantSample() {
			s := h.String()
			c.Sample(map[string]any{"package": "reassembly", "connections": len(h.Conns), "calls": len(h.Evs), "history_prefix": s[:min(len(s), 800)]})
		}
		c.End()
	}
}

func prefixOf(h *asm.History, call int) string {
	hh := *h
	lo := call - 40
	if lo < 0 {
		lo = 0
	}
	if call+1 <= len(hh.Evs) {
		hh.Evs = hh.Evs[lo : call+1]
	}
	s := hh.String()
	if len(s) > 3000 {
		s = s[len(s)-3000:]
	}
	return s
}
