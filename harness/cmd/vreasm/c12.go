package main

import (
	"fmt"
	"math/rand/v2"
	"runtime"
	"strings"
	"sync"
	"sync/atomic"
	"time"

	"github.com/gopacket/gopacket"
	"github.com/gopacket/gopacket/layers"
	"github.com/gopacket/gopacket/reassembly"

	"verif/harness/internal/asm"
	"verif/harness/internal/vlib"
)

func init() {
	vlib.Register("C12", "stress-reassembly", c12Stress)
}

// ---- Mode R: randomized stress under the race detector ---------------------------------------------------------------

type pstream struct {
	asm.StreamMon
	c2s int // direction of the packet that created the stream
}

func (s *pstream) Accept(tcp *layers.TCP, ci gopacket.CaptureInfo, dir reassembly.TCPFlowDirection, nextSeq reassembly.Sequence, start *bool, ac reassembly.AssemblerContext) bool {
	if s.EnterLight() {
		runtime.Gosched()
		s.LeaveLight()
	}
	return true
}

func (s *pstream) ReassembledSG(sg reassembly.ScatterGather, ac reassembly.AssemblerContext) {
	if !s.Enter() {
		return
	}
	defer s.Leave()
	dir, start, end, skip := sg.Info()
	n, _ := sg.Lengths()
	d := s.c2s
	if dir == reassembly.TCPDirServerToClient {
		d = 1 - s.c2s
	}
	s.Data(d, sg.Fetch(n), skip, start, end)
}

func (s *pstream) ReassemblyComplete(ac reassembly.AssemblerContext) bool {
	if !s.Enter() {
		return true
	}
	defer s.Leave()
	for i := 0; i < 3; i++ {
		runtime.Gosched() // a completion callback that takes a moment: other assemblers get to run meanwhile
	}
	s.Complete()
	return true
}

type pfactory struct {
	mu      sync.Mutex
	streams []*pstream
	byKey   map[dirKey][3]int // -> conn, dir, generation (-1: key reused by all generations)
}

func (f *pfactory) New(netFlow, tcpFlow gopacket.Flow, tcp *layers.TCP, ac reassembly.AssemblerContext) reassembly.Stream {
	cd := f.byKey[dirKey{netFlow, tcpFlow}] // read-only map
	s := &pstream{c2s: cd[1]}
	s.Conn, s.Dir, s.Gen, s.Relaxed = cd[0], -1, cd[2], cd[2] < 0 // one stream serves both directions
	f.mu.Lock()
	s.ID = len(f.streams)
	f.streams = append(f.streams, s)
	f.mu.Unlock()
	return s
}

type cpacket struct {
	nf gopacket.Flow
	t  *layers.TCP
	ts time.Time
}

// c12Packets builds, for one (conn, dir), the packets of gens generations in feeding order.
// c12Port: connection 0 re-opens the same 4-tuple in every generation; the others use a fresh source port per generation,
// so that each of their streams belongs to exactly one TCP connection and the content checks are sound.
func c12Port(conn, gen int) uint16 {
	if conn == 0 {
		return 2000
	}
	return uint16(3000 + conn*400 + gen)
}

func c12Packets(r *vlib.Rand, conn, dir, gens int) []cpacket {
	var out []cpacket
	ts := int64(0)
	curGen := 0
	mk := func(seq uint32, data []byte, syn, fin bool) {
		src, dst := []byte{10, 0, 0, byte(conn)}, []byte{10, 1, 0, 1}
		sp, dp := c12Port(conn, curGen), uint16(80)
		if dir == 1 {
			src, dst, sp, dp = dst, src, dp, sp
		}
		nf := gopacket.NewFlow(layers.EndpointIPv4, src, dst)
		t := &layers.TCP{SrcPort: layers.TCPPort(sp), DstPort: layers.TCPPort(dp), Seq: seq, SYN: syn, FIN: fin, ACK: !syn}
		t.Payload = data
		t.SetInternalPortsForTesting()
		ts++
		out = append(out, cpacket{nf, t, lt(ts)})
	}
	// successive incarnations of one 4-tuple use increasing ISNs (as real stacks do): bytes of an earlier incarnation that
	// are still buffered when the next SYN arrives then lie wholly before the new start and are dropped, instead of being
	// mistaken for data of the new connection (which no assembler could tell apart)
	isn := r.U32()
	if r.Chance(1, 2) {
		isn = 0xffffffff - uint32(r.Intn(4000)) // the wrap falls somewhere inside the run
	}
	for g := 0; g < gens; g++ {
		curGen = g
		if g > 0 {
			isn += uint32(r.Range(2, 500))
		}
		mk(isn, nil, true, false)
		nrec := 0
		nseg := r.Range(1, 6)
		for k := 0; k < nseg; k++ {
			n := r.Range(1, 8)
			mk(isn+1+uint32(nrec*8), asm.Payload(conn, dir, g, nrec, n), false, false)
			nrec += n
		}
		mk(isn+1+uint32(nrec*8), nil, false, true)
		isn += 1 + uint32(nrec*8)
	}
	return out
}

func c12Key(conn, gen int) (dirKey, dirKey) {
	src, dst := []byte{10, 0, 0, byte(conn)}, []byte{10, 1, 0, 1}
	sp, dp := c12Port(conn, gen), uint16(80)
	nf := gopacket.NewFlow(layers.EndpointIPv4, src, dst)
	tf := gopacket.NewFlow(layers.EndpointTCPPort, []byte{byte(sp >> 8), byte(sp)}, []byte{byte(dp >> 8), byte(dp)})
	return dirKey{nf, tf}, dirKey{nf.Reverse(), tf.Reverse()}
}

func yieldRandom(string) {
	switch v := rand.Uint32() % 32; {
	case v < 8:
		runtime.Gosched()
	case v < 10:
		time.Sleep(time.Duration(1+rand.Uint32()%100) * time.Microsecond)
	}
}

func c12Stress(c *vlib.Ctx) {
	rounds := c.Pick(6, 60)
	c.SetBudget(600, 3<<30)
	for round := 0; round < rounds; round++ {
		if !c.Begin(round) {
			continue
		}
		r := c.Rand(uint64(round))
		nconn := r.Range(2, 6)
		nwork := r.Range(2, 8)
		gens := r.Range(20, c.Pick(120, 300))
		f := &pfactory{byKey: map[dirKey][3]int{}}
		for ci := 0; ci < nconn; ci++ {
			for g := 0; g < gens; g++ {
				k0, k1 := c12Key(ci, g)
				gg := g
				if ci == 0 {
					gg = -1
				}
				f.byKey[k0], f.byKey[k1] = [3]int{ci, 0, gg}, [3]int{ci, 1, gg}
			}
		}
		pool := reassembly.NewStreamPool(f)
		// every (conn, dir) is fed in order by exactly one worker
		work := make([][][]cpacket, nwork)
		for ci := 0; ci < nconn; ci++ {
			for d := 0; d < 2; d++ {
				w := r.Intn(nwork)
				work[w] = append(work[w], c12Packets(r.Fork(), ci, d, gens))
			}
		}
		reassembly.SetVerifYield(yieldRandom)
		var wg sync.WaitGroup
		var panics sync.Map
		var calls, progress int64
		stop := make(chan struct{})
		for w := 0; w < nwork; w++ {
			wg.Add(1)
			go func(w int, lists [][]cpacket, wr *vlib.Rand) {
				defer wg.Done()
				a := reassembly.NewAssembler(pool)
				if pi := vlib.Guard(func() {
					idx := make([]int, len(lists))
					left := 0
					for _, l := range lists {
						left += len(l)
					}
					for left > 0 {
						k := wr.Intn(len(lists))
						if idx[k] >= len(lists[k]) {
							continue
						}
						p := lists[k][idx[k]]
						idx[k]++
						left--
						a.AssembleWithContext(p.nf, p.t, &actx{gopacket.CaptureInfo{Timestamp: p.ts}})
						atomic.AddInt64(&progress, 1)
					}
				}); pi != nil {
					panics.Store(pi.Key, pi)
				}
				atomic.AddInt64(&calls, 1)
			}(w, work[w], r.Fork())
		}
		// the concurrent flusher
		var fwg sync.WaitGroup
		withFlusher := r.Chance(3, 4)
		if withFlusher {
			fwg.Add(1)
			go func(fr *vlib.Rand) {
				defer fwg.Done()
				a := reassembly.NewAssembler(pool)
				for {
					select {
					case <-stop:
						return
					default:
					}
					if pi := vlib.Guard(func() {
						switch fr.Intn(10) {
						case 0:
							a.FlushAll()
						default:
							a.FlushCloseOlderThan(lt(int64(fr.Intn(400))))
						}
					}); pi != nil {
						panics.Store(pi.Key, pi)
						return
					}
					time.Sleep(time.Duration(fr.Range(20, 400)) * time.Microsecond)
				}
			}(r.Fork())
		}
		// deadlock watchdog: decided from a goroutine snapshot, the timer only says when to look
		done := make(chan struct{})
		go func() { wg.Wait(); close(done) }()
		deadlocked := ""
		last := int64(-1)
	wait:
		for {
			select {
			case <-done:
				break wait
			case <-time.After(10 * time.Second):
				cur := atomic.LoadInt64(&progress)
				if cur == last {
					buf := make([]byte, 1<<20)
					snap := string(buf[:runtime.Stack(buf, true)])
					if n := strings.Count(snap, "sync.(*Mutex).Lock") + strings.Count(snap, "sync.(*RWMutex)"); n >= 2 && !strings.Contains(snap, "running]:\ngithub.com/gopacket") {
						deadlocked = snap
						break wait
					}
				}
				last = cur
			}
		}
		close(stop)
		if deadlocked != "" {
			c.Violation("deadlock:reassembly", "no assembler call made progress for 10 s and the workers are parked in mutex acquisition", map[string]any{"goroutines": deadlocked[:min(len(deadlocked), 20000)]})
			c.End()
			return // the goroutines are stuck; the process ends with the phase
		}
		fwg.Wait()
		reassembly.SetVerifYield(nil)
		panics.Range(func(k, v any) bool {
			pi := v.(*vlib.PanicInfo)
			c.Violation(pi.Key, "panic in a concurrent assembler call: "+pi.Value, map[string]any{"stack": pi.Stack})
			return true
		})
		// single-threaded epilogue
		ea := reassembly.NewAssembler(pool)
		if pi := vlib.Guard(func() { ea.FlushAll() }); pi != nil {
			c.Violation(pi.Key, "panic in the final FlushAll: "+pi.Value, nil)
		}
		if left := reassembly.VerifPoolSnapshot(pool); len(left) != 0 {
			c.Violation("connections-left-after-flushall:reassembly", fmt.Sprintf("%d connections remain in the pool after the final FlushAll", len(left)), nil)
		}
		c12Evaluate(c, "reassembly", f.monitors(), nconn, false)
		c.Count("stress_rounds_reassembly", 1)
		c.Count("stress_calls_reassembly", int(atomic.LoadInt64(&progress)))
		if withFlusher {
			c.Count("stress_rounds_with_flusher", 1)
		}
		c.NonTrivial(vlib.Mix(uint64(round), uint64(c.Batch), 12))
		if c.WantSample() {
			c.Sample(map[string]any{"package": "reassembly", "connections": nconn, "assembler_goroutines": nwork, "generations_per_direction": gens, "flusher": withFlusher, "streams_created": len(f.streams)})
		}
		c.End()
	}
}

func (f *pfactory) monitors() []*asm.StreamMon {
	var out []*asm.StreamMon
	for _, s := range f.streams {
		out = append(out, &s.StreamMon)
	}
	return out
}

// c12Evaluate runs the offline oracles over the per-stream logs after all goroutines were joined.
func c12Evaluate(c *vlib.Ctx, pkg string, mons []*asm.StreamMon, nconn int, bidir bool) {
	type ident struct{ conn, dir, gen, idx int }
	seen := map[ident]int{}
	byKey := map[[3]int][]*asm.StreamMon{}
	kept, discarded := 0, 0
	for _, m := range mons {
		for _, b := range m.Bad {
			p := strings.SplitN(b, "\x00", 2)
			c.Violation(p[0]+":"+pkg, p[1], nil)
		}
		if m.Callbacks == 0 {
			discarded++ // lost the double-checked insert: never used
			continue
		}
		kept++
		if m.Completed != 1 {
			c.Violation("completion-count:"+pkg, fmt.Sprintf("stream %d (conn %d dir %d) received callbacks and was completed %d times after the final FlushAll", m.ID, m.Conn, m.Dir, m.Completed), nil)
		}
		byKey[[3]int{m.Conn, m.Dir, m.Gen}] = append(byKey[[3]int{m.Conn, m.Dir, m.Gen}], m)
	}
	// exactly-once across streams: every record is unique, so a record seen twice was delivered twice
	dups := 0
	for _, m := range mons {
		for _, d := range m.Log {
			for i := 0; i < d.N; i++ {
				id := ident{m.Conn, d.Dir, d.Gen, d.First + i}
				seen[id]++
				if seen[id] == 2 {
					dups++
					if dups == 1 {
						c.Violation("record-delivered-twice:"+pkg, fmt.Sprintf("conn %d dir %d gen %d record #%d was handed to streams twice", id.conn, id.dir, id.gen, id.idx), nil)
					}
				}
			}
		}
	}
	c.Count("records_delivered_"+pkg, len(seen))
	// single live entry per key, decided by porcupine over the callback intervals of all kept streams of that key
	var evs []asm.LiveEv
	for k, ms := range byKey {
		for _, m := range ms {
			for _, e := range m.Evs {
				evs = append(evs, asm.LiveEv{Key: k, Stream: m.ID + 1, Kind: e.Kind, T0: e.T0, T1: e.T1})
			}
		}
	}
	if key, desc := asm.CheckSingleLiveStream(evs, 60*time.Second); key == "unknown" {
		c.Inconclusive("single-live-entry check: " + desc)
	} else if key != "" {
		c.Violation(key+":"+pkg, desc, nil)
	}
	c.Count("callback_events_checked_by_porcupine", len(evs))
	c.Count("streams_kept_"+pkg, kept)
	c.Count("streams_discarded_by_double_check_"+pkg, discarded)
}
