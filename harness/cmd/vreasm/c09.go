package main

import (
	"fmt"
	"os"
	"time"

	"github.com/gopacket/gopacket"
	"github.com/gopacket/gopacket/layers"
	"github.com/gopacket/gopacket/reassembly"

	"verif/harness/internal/asm"
	"verif/harness/internal/vlib"
)

func init() {
	vlib.Register("C09", "random", c09Random)
	vlib.Register("C09", "perm", c09Perm)
}

var debugDeliveries = os.Getenv("VDEBUG") != ""

var tBase = time.Unix(1_600_000_000, 0)

func lt(ts int64) time.Time { return tBase.Add(time.Duration(ts) * time.Second) }

type dirKey [2]gopacket.Flow

type actx struct{ ci gopacket.CaptureInfo }

func (a *actx) GetCaptureInfo() gopacket.CaptureInfo { return a.ci }

// rrun is the harness state of one history on the reassembly assembler.
type rrun struct {
	c         *vlib.Ctx
	h         *asm.History
	byKey     map[dirKey][2]int
	logs      map[[2]int]*asm.FeedLog
	cc        asm.CallCtx
	streams   []*rstream
	viol      func(key, desc string)
	keepRand  *vlib.Rand
	keepPct   int
	refuse    bool // streams refuse removal (ReassemblyComplete returns false)
	onDeliver func(s *rstream, dir int, skip int, seen time.Time)
	noContent bool
}

type rstream struct {
	r          *rrun
	id         int
	conn       int
	c2s        int // which of the connection's directions is this stream's client->server
	chk        [2]*asm.DirChecker
	completed  int
	deliveries int
	accepted   bool // what ReassemblyComplete answered
}

func (r *rrun) New(netFlow, tcpFlow gopacket.Flow, tcp *layers.TCP, ac reassembly.AssemblerContext) reassembly.Stream {
	cd, ok := r.byKey[dirKey{netFlow, tcpFlow}]
	s := &rstream{r: r, id: len(r.streams), conn: -1}
	if ok {
		s.conn, s.c2s = cd[0], cd[1]
	}
	if ok && !r.noContent {
		for d := 0; d < 2; d++ {
			s.chk[d] = asm.NewDirChecker(r.h.Conns[s.conn].S[d], r.logs[[2]int{s.conn, d}], r.cc.Call)
		}
	}
	r.streams = append(r.streams, s)
	return s
}

func (s *rstream) Accept(tcp *layers.TCP, ci gopacket.CaptureInfo, dir reassembly.TCPFlowDirection, nextSeq reassembly.Sequence, start *bool, ac reassembly.AssemblerContext) bool {
	return true
}

func (s *rstream) ReassembledSG(sg reassembly.ScatterGather, ac reassembly.AssemblerContext) {
	if s.completed > 0 {
		s.r.viol("data-after-completion", fmt.Sprintf("stream %d received data after ReassemblyComplete", s.id))
	}
	s.deliveries++
	dir, start, end, skip := sg.Info()
	avail, saved := sg.Lengths()
	all := append([]byte{}, sg.Fetch(avail)...)
	if s.conn < 0 {
		return
	}
	d := s.c2s
	if dir == reassembly.TCPDirServerToClient {
		d = 1 - s.c2s
	}
	if s.r.onDeliver != nil {
		s.r.onDeliver(s, d, skip, sg.CaptureInfo(saved).Timestamp)
	}
	chk := s.chk[d]
	if chk == nil {
		if s.r.keepPct > 0 && s.r.keepRand.Intn(100) < s.r.keepPct && !end {
			sg.KeepFrom(s.r.keepRand.Range(0, avail))
		}
		return
	}
	if debugDeliveries {
		fmt.Printf("call %d stream %d conn %d dir %d: skip=%d start=%v end=%v saved=%d avail=%d pos=%d\n", s.r.cc.Call, s.id, s.conn, d, skip, start, end, saved, avail, chk.Pos())
	}
	if key, desc := chk.Deliver(s.r.cc, skip, start, end, saved, all, true); key != "" {
		s.r.viol(key, fmt.Sprintf("conn %d dir %d: %s", s.conn, d, desc))
	}
	if s.r.keepPct > 0 && s.r.keepRand.Intn(100) < s.r.keepPct && !end {
		k := s.r.keepRand.Range(0, avail)
		sg.KeepFrom(k)
		chk.Keep(all, k)
	}
}

func (s *rstream) ReassemblyComplete(ac reassembly.AssemblerContext) bool {
	s.completed++
	if s.completed > 1 && s.accepted {
		s.r.viol("completed-twice", fmt.Sprintf("stream %d completed %d times", s.id, s.completed))
	}
	for d := 0; d < 2; d++ {
		if s.chk[d] != nil {
			s.chk[d].Complete(s.r.cc.Call)
		}
	}
	s.accepted = !s.r.refuse
	return s.accepted
}

func newRRun(c *vlib.Ctx, h *asm.History) *rrun {
	r := &rrun{c: c, h: h, byKey: map[dirKey][2]int{}, logs: map[[2]int]*asm.FeedLog{}}
	for ci, cn := range h.Conns {
		nf := gopacket.NewFlow(layers.EndpointIPv4, cn.SrcIP[:], cn.DstIP[:])
		tf := gopacket.NewFlow(layers.EndpointTCPPort, []byte{byte(cn.SrcPort >> 8), byte(cn.SrcPort)}, []byte{byte(cn.DstPort >> 8), byte(cn.DstPort)})
		r.byKey[dirKey{nf, tf}] = [2]int{ci, 0}
		r.byKey[dirKey{nf.Reverse(), tf.Reverse()}] = [2]int{ci, 1}
		r.logs[[2]int{ci, 0}] = &asm.FeedLog{}
		r.logs[[2]int{ci, 1}] = &asm.FeedLog{}
	}
	return r
}

func mkTCP(cn *asm.Conn, sg *asm.Seg) (gopacket.Flow, *layers.TCP) {
	src, dst, sp, dp := cn.SrcIP[:], cn.DstIP[:], cn.SrcPort, cn.DstPort
	if sg.Dir == 1 {
		src, dst, sp, dp = dst, src, dp, sp
	}
	t := &layers.TCP{SrcPort: layers.TCPPort(sp), DstPort: layers.TCPPort(dp), Seq: sg.Seq, SYN: sg.SYN, FIN: sg.FIN, RST: sg.RST, ACK: !sg.SYN}
	t.Payload = sg.Data
	t.SetInternalPortsForTesting()
	return gopacket.NewFlow(layers.EndpointIPv4, src, dst), t
}

func (r *rrun) play(a *reassembly.Assembler, after func(ev *asm.Ev)) (pi *vlib.PanicInfo) {
	limit := r.h.PerConnLimit > 0 || r.h.TotalLimit > 0
	for i := range r.h.Evs {
		ev := &r.h.Evs[i]
		r.cc = asm.CallCtx{Call: i, Flush: ev.Kind != asm.EvSeg, LimitConfigured: limit, PerConn: r.h.PerConnLimit, Total: r.h.TotalLimit}
		pi = vlib.Guard(func() {
			switch ev.Kind {
			case asm.EvSeg:
				sg := &ev.Seg
				r.logs[[2]int{sg.Conn, sg.Dir}].Add(i, sg.Off, len(sg.Data), sg.SYN)
				nf, t := mkTCP(&r.h.Conns[sg.Conn], sg)
				a.AssembleWithContext(nf, t, &actx{gopacket.CaptureInfo{Timestamp: lt(ev.TS), Length: len(sg.Data), CaptureLength: len(sg.Data)}})
			case asm.EvFlushOlder:
				a.FlushCloseOlderThan(lt(ev.Cut))
			case asm.EvFlushAll:
				a.FlushAll()
			}
		})
		if pi != nil {
			return pi
		}
		if after != nil {
			after(ev)
		}
	}
	return nil
}

func (r *rrun) finals() {
	for _, s := range r.streams {
		for d := 0; d < 2; d++ {
			if s.chk[d] != nil {
				if key, desc := s.chk[d].Final(); key != "" {
					r.viol(key, fmt.Sprintf("conn %d dir %d: %s", s.conn, d, desc))
				}
			}
		}
		if s.completed != 1 {
			r.viol("completion-count", fmt.Sprintf("stream %d was completed %d times after the final FlushAll", s.id, s.completed))
		}
	}
}

type c09Factory struct{ cur *rrun }

func (f *c09Factory) New(netFlow, tcpFlow gopacket.Flow, tcp *layers.TCP, ac reassembly.AssemblerContext) reassembly.Stream {
	return f.cur.New(netFlow, tcpFlow, tcp, ac)
}

type c09SharedAsm struct {
	f *c09Factory
	a *reassembly.Assembler
}

var c09Shared = map[[2]int]*c09SharedAsm{}
var c09HistoryNo int

func runHistory09(c *vlib.Ctx, h *asm.History, keepPct int, keepSeed uint64) {
	c.Step()
	r := newRRun(c, h)
	r.keepPct, r.keepRand = keepPct, vlib.NewRand(keepSeed)
	r.viol = func(key, desc string) {
		c.Violation(key, desc, map[string]any{"history": h.String(), "keep_percent": keepPct})
	}
	// every other history runs on a pool and assembler that earlier histories with the same limits have used (see C10)
	var a *reassembly.Assembler
	lk := [2]int{h.PerConnLimit, h.TotalLimit}
	c09HistoryNo++
	if sh := c09Shared[lk]; sh != nil && c09HistoryNo%2 == 0 && false { // not enabled: see DESIGN (reassembly keeps refused streams in the pool)
		sh.f.cur = r
		a = sh.a
		c.Count("histories_on_a_reused_pool", 1)
	} else {
		f := &c09Factory{cur: r}
		a = reassembly.NewAssembler(reassembly.NewStreamPool(f))
		c09Shared[lk] = &c09SharedAsm{f, a}
	}
	a.MaxBufferedPagesPerConnection = h.PerConnLimit
	a.MaxBufferedPagesTotal = h.TotalLimit
	if pi := r.play(a, nil); pi != nil {
		delete(c09Shared, lk)
		c.Violation(pi.Key, "assembler panicked: "+pi.Value, map[string]any{"history": h.String(), "keep_percent": keepPct, "stack": pi.Stack})
		return
	}
	r.finals()
	started, limitSkips := 0, 0
	for _, s := range r.streams {
		for d := 0; d < 2; d++ {
			if s.chk[d] != nil && s.chk[d].Started {
				started++
				limitSkips += s.chk[d].LimitSkips
				if s.chk[d].SawSkip {
					c.Count("directions_with_announced_skip", 1)
				}
				if s.chk[d].SawKept {
					c.Count("directions_with_kept_bytes_represented", 1)
				}
			}
		}
	}
	c.Count("started_directions_checked", started)
	c.Count("limit_forced_releases", limitSkips)
	if keepPct > 0 {
		c.Count("histories_with_keep", 1)
	}
	for f := range h.Features {
		c.Count("histories_with_"+f, 1)
	}
	if h.Features["ooo"] {
		c.NonTrivial(vlib.Mix(vlib.HashString(h.String()), uint64(keepPct), keepSeed))
	}
	if c.WantSample() {
		s := h.String()
		if len(s) > 1500 {
			s = s[:1500] + "..."
		}
		c.Sample(map[string]any{"history": s, "keep_percent": keepPct})
	}
}

func c09Random(c *vlib.Ctx) {
	n := c.Pick(2500, 40000)
	for i := 0; i < n; i++ {
		if !c.Begin(i) {
			continue
		}
		r := c.Rand(uint64(i))
		p := asm.Params{Conns: r.Range(1, 2), MaxStream: c.Pick(16<<10, 64<<10), Flushes: r.Chance(1, 2), NoSYN: 10, CloseProb: 60, Stall: 6, MixSizes: r.Chance(1, 6), Both: true}
		if r.Chance(1, 2) {
			p.MaxStream = 600
			p.SmallSegs = r.Bool()
		}
		h := asm.Gen(r, p)
		if r.Chance(1, 3) {
			h.PerConnLimit = []int{1, 2, 5}[r.Intn(3)]
		}
		if r.Chance(1, 8) {
			h.TotalLimit = []int{1, 2, 5}[r.Intn(3)]
		}
		keep := 0
		if r.Chance(1, 2) {
			keep = []int{10, 30, 80}[r.Intn(3)]
		}
		runHistory09(c, h, keep, r.U64())
		c.End()
	}
}

func c09Perm(c *vlib.Ctx) {
	idx := 0
	isns := []uint32{0xffffffff - 10, 0xfffffff0, 0, 0x7ffffffa}
	for nseg := 2; nseg <= c.Pick(5, 6); nseg++ {
		for _, isn := range isns {
			for _, keep := range []int{0, 50} {
				idx++
				if idx%c.NBatch != c.Batch || !c.Begin(idx) {
					continue
				}
				r := c.Rand(uint64(idx))
				S := r.Bytes(nseg*6 + r.Intn(5))
				cn := asm.Conn{SrcPort: 1000, DstPort: 80, Dirs: 1}
				cn.SrcIP, cn.DstIP = [4]byte{1, 2, 3, 4}, [4]byte{5, 6, 7, 8}
				cn.S[0], cn.ISN[0] = S, isn
				var segs []asm.Seg
				segs = append(segs, asm.Seg{Seq: isn, SYN: true})
				per := len(S) / (nseg - 1)
				for k := 0; k < nseg-1; k++ {
					a, b := k*per, (k+1)*per
					if k == nseg-2 {
						b = len(S)
					}
					segs = append(segs, asm.Seg{Seq: isn + 1 + uint32(a), Data: S[a:b], Off: a})
				}
				perm := make([]int, nseg)
				for k := range perm {
					perm[k] = k
				}
				cnt := 0
				var rec func(k int)
				rec = func(k int) {
					if k == nseg {
						for d := -1; d < nseg; d++ {
							for q := 0; q <= nseg; q++ {
								if d < 0 && q > 0 {
									break
								}
								h := &asm.History{Conns: []asm.Conn{cn}, Features: map[string]bool{}}
								ts := int64(100)
								add := func(s asm.Seg) {
									ts++
									h.Evs = append(h.Evs, asm.Ev{Kind: asm.EvSeg, Seg: s, TS: ts})
								}
								for pos, si := range perm {
									if d >= 0 && pos == q {
										add(segs[d])
									}
									add(segs[si])
									if pos > 0 && segs[si].Off < segs[perm[pos-1]].Off {
										h.Features["ooo"] = true
									}
								}
								if d >= 0 && q == nseg {
									add(segs[d])
								}
								if d >= 0 {
									h.Features["overlap"] = true
								}
								if uint64(isn)+uint64(len(S))+2 > 1<<32 {
									h.Features["wrap"] = true
								}
								h.Evs = append(h.Evs, asm.Ev{Kind: asm.EvFlushAll, TS: ts + 1})
								runHistory09(c, h, keep, uint64(cnt))
								cnt++
							}
						}
						return
					}
					for j := k; j < nseg; j++ {
						perm[k], perm[j] = perm[j], perm[k]
						rec(k + 1)
						perm[k], perm[j] = perm[j], perm[k]
					}
				}
				rec(0)
				c.Evals(cnt)
				c.Count("permutation_histories", cnt)
				c.End()
			}
		}
	}
}
