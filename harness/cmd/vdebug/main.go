// vdebug: development aid - decode a hex input of a given first layer from (a) an exact copy, (b) a slice with junk in its spare capacity.
package main

import (
	"encoding/hex"
	"fmt"
	"os"
	"strings"

	"github.com/gopacket/gopacket"
	"github.com/gopacket/gopacket/layers"
)

func show(tag string, b []byte, first gopacket.Decoder, o gopacket.DecodeOptions) {
	p := gopacket.NewPacket(b, first, o)
	fmt.Print(tag, ": ")
	for _, l := range p.Layers() {
		fmt.Print(l.LayerType(), "(", len(l.LayerContents()), "/", len(l.LayerPayload()), ") ")
	}
	fmt.Println("truncated:", p.Metadata().Truncated, "err:", p.ErrorLayer())
}

func rt(in []byte, first gopacket.Decoder) {
	o := gopacket.DecodeOptions{DecodeStreamsAsDatagrams: true}
	p := gopacket.NewPacket(in, first, o)
	fmt.Println(p.Dump())
	var sls []gopacket.SerializableLayer
	var nl gopacket.NetworkLayer
	for _, l := range p.Layers() {
		if x, ok := l.(interface {
			SetNetworkLayerForChecksum(gopacket.NetworkLayer) error
		}); ok && nl != nil {
			x.SetNetworkLayerForChecksum(nl)
		}
		if x, ok := l.(gopacket.NetworkLayer); ok {
			nl = x
		}
		if sl, ok := l.(gopacket.SerializableLayer); ok {
			sls = append(sls, sl)
		}
	}
	buf := gopacket.NewSerializeBuffer()
	err := gopacket.SerializeLayers(buf, gopacket.SerializeOptions{FixLengths: true, ComputeChecksums: true}, sls...)
	fmt.Println("serialize err:", err)
	fmt.Println("in :", hex.EncodeToString(in))
	fmt.Println("out:", hex.EncodeToString(buf.Bytes()))
	q := gopacket.NewPacket(buf.Bytes(), first, o)
	fmt.Println(q.Dump())
	fmt.Println("truncated:", q.Metadata().Truncated, "err:", q.ErrorLayer())
}

// rt1: per-layer round trip of every layer of the decoded input
func rt1(in []byte, first gopacket.Decoder) {
	o := gopacket.DecodeOptions{DecodeStreamsAsDatagrams: true}
	p := gopacket.NewPacket(in, first, o)
	var nl gopacket.NetworkLayer
	for _, l := range p.Layers() {
		if x, ok := l.(interface {
			SetNetworkLayerForChecksum(gopacket.NetworkLayer) error
		}); ok && nl != nil {
			x.SetNetworkLayerForChecksum(nl)
		}
		switch x := l.(type) {
		case *layers.IPv4:
			nl = x
		case *layers.IPv6:
			nl = x
		}
		sl, ok := l.(gopacket.SerializableLayer)
		if !ok || l.LayerType() == gopacket.LayerTypePayload {
			continue
		}
		fmt.Println("=====", l.LayerType())
		fmt.Println("x  :", gopacket.LayerString(l))
		fmt.Println("b0 :", hex.EncodeToString(l.LayerContents()), "|", hex.EncodeToString(l.LayerPayload()))
		buf := gopacket.NewSerializeBuffer()
		err := gopacket.SerializeLayers(buf, gopacket.SerializeOptions{FixLengths: true, ComputeChecksums: true}, sl, gopacket.Payload(l.LayerPayload()))
		if err != nil {
			fmt.Println("serialize err:", err)
			continue
		}
		fmt.Println("b1 :", hex.EncodeToString(buf.Bytes()))
		q := gopacket.NewPacket(buf.Bytes(), l.LayerType(), o)
		if len(q.Layers()) > 0 {
			l1 := q.Layers()[0]
			fmt.Println("L1 :", gopacket.LayerString(l1))
			fmt.Println("     contents", len(l1.LayerContents()), "payload", len(l1.LayerPayload()), "truncated", q.Metadata().Truncated, "err", q.ErrorLayer())
		}
	}
}

func main() {
	if os.Args[1] == "rt1" {
		in, _ := hex.DecodeString(os.Args[3])
		var first gopacket.Decoder = layers.LayerTypeEthernet
		if d, ok := gopacket.DecodersByLayerName[os.Args[2]]; ok {
			first = d
		}
		rt1(in, first)
		return
	}
	if os.Args[1] == "rt" {
		in, _ := hex.DecodeString(os.Args[3])
		var first gopacket.Decoder = layers.LayerTypeEthernet
		if d, ok := gopacket.DecodersByLayerName[os.Args[2]]; ok {
			first = d
		}
		rt(in, first)
		return
	}
	hx := os.Args[2]
	if strings.HasPrefix(hx, "@") {
		b, _ := os.ReadFile(hx[1:])
		hx = strings.TrimSpace(string(b))
	}
	in, _ := hex.DecodeString(hx)
	var first gopacket.Decoder = layers.LayerTypeEthernet
	if d, ok := gopacket.DecodersByLayerName[os.Args[1]]; ok {
		first = d
	}
	exact := make([]byte, len(in))
	copy(exact, in)
	show("exact   ", exact, first, gopacket.DecodeOptions{NoCopy: true})
	big := make([]byte, len(in)+400)
	for i := range big {
		big[i] = 0x16
	}
	copy(big, in)
	show("embedded", big[:len(in)], first, gopacket.DecodeOptions{NoCopy: true})
	show("lazy    ", exact, first, gopacket.DecodeOptions{NoCopy: true, Lazy: true})
	show("pool    ", exact, first, gopacket.DecodeOptions{Pool: true})
	show("poollazy", exact, first, gopacket.DecodeOptions{Pool: true, Lazy: true, DecodeStreamsAsDatagrams: true})
	show("dflazy  ", exact, first, gopacket.DecodeOptions{Lazy: true, DecodeStreamsAsDatagrams: true})
}
