// vdebug: development aid - decode a hex input of a given first layer from (a) an exact copy, (b) a slice with junk in its spare capacity.
package main

import (
	"encoding/hex"
	"fmt"
	"os"
	"strings"

	"github.com/gopacket/gopacket"
	"github.com/gopacket/gopacket/layers"
)

func show(tag string, b []byte, first gopacket.Decoder, o gopacket.DecodeOptions) {
	p := gopacket.NewPacket(b, first, o)
	fmt.Print(tag, ": ")
	for _, l := range p.Layers() {
		fmt.Print(l.LayerType(), "(", len(l.LayerContents()), "/", len(l.LayerPayload()), ") ")
	}
	fmt.Println("truncated:", p.Metadata().Truncated, "err:", p.ErrorLayer())
}

func main() {
	hx := os.Args[2]
	if strings.HasPrefix(hx, "@") {
		b, _ := os.ReadFile(hx[1:])
		hx = strings.TrimSpace(string(b))
	}
	in, _ := hex.DecodeString(hx)
	var first gopacket.Decoder = layers.LayerTypeEthernet
	if d, ok := gopacket.DecodersByLayerName[os.Args[1]]; ok {
		first = d
	}
	exact := make([]byte, len(in))
	copy(exact, in)
	show("exact   ", exact, first, gopacket.DecodeOptions{NoCopy: true})
	big := make([]byte, len(in)+400)
	for i := range big {
		big[i] = 0x16
	}
	copy(big, in)
	show("embedded", big[:len(in)], first, gopacket.DecodeOptions{NoCopy: true})
	show("lazy    ", exact, first, gopacket.DecodeOptions{NoCopy: true, Lazy: true})
	show("pool    ", exact, first, gopacket.DecodeOptions{Pool: true})
	show("poollazy", exact, first, gopacket.DecodeOptions{Pool: true, Lazy: true, DecodeStreamsAsDatagrams: true})
	show("dflazy  ", exact, first, gopacket.DecodeOptions{Lazy: true, DecodeStreamsAsDatagrams: true})
}
