// vdebug decodes a hex packet and prints it (development aid).
package main

import (
	"encoding/hex"
	"fmt"
	"os"

	"github.com/gopacket/gopacket"
	"github.com/gopacket/gopacket/layers"
)

func main() {
	b, _ := hex.DecodeString(os.Args[2])
	var first gopacket.Decoder = layers.LayerTypeEthernet
	if d, ok := gopacket.DecodersByLayerName[os.Args[1]]; ok {
		first = d
	}
	p := gopacket.NewPacket(b, first, gopacket.Default)
	for _, l := range p.Layers() {
		fmt.Println(l.LayerType(), len(l.LayerContents()), len(l.LayerPayload()))
	}
	fmt.Println("truncated:", p.Metadata().Truncated, "err:", p.ErrorLayer())
}
