package main

import (
	"encoding/hex"
	"os"
	"reflect"
	"sort"
	"sync"

	"github.com/gopacket/gopacket"
	"github.com/gopacket/gopacket/layers"

	"verif/harness/internal/corpus"
	"verif/harness/internal/gen"
	"verif/harness/internal/vlib"
)

var (
	corpOnce sync.Once
	corp     *corpus.Corpus
	dlTypes  map[gopacket.LayerType]reflect.Type // concrete struct types whose pointer implements DecodingLayer
	dlList   []gopacket.LayerType
	dlImpl   map[gopacket.LayerType][]reflect.Type // every DecodingLayer implementation, by layer type it can decode
)

var _ = layers.LayerTypeEthernet

// repoDir is the tree under test: /repo, or a snapshot of it for background sweeps (VERIF_REPO).
func repoDir() string {
	if d := os.Getenv("VERIF_REPO"); d != "" {
		return d
	}
	return "/repo"
}

// getCorpus builds the corpus once per child and discovers the DecodingLayer implementations by reflection over the
// layer objects that decoding the seeds produces.
func getCorpus() *corpus.Corpus {
	corpOnce.Do(func() {
		if path := os.Getenv("VERIF_LASTINPUT"); path != "" {
			corpus.LastInput, _ = os.OpenFile(path, os.O_CREATE|os.O_WRONLY, 0o644)
		}
		corp = corpus.Build(repoDir())
		if corpus.LastInput != nil {
			corpus.LastInput.Close()
			corpus.LastInput = nil
		}
		dlTypes = map[gopacket.LayerType]reflect.Type{}
		dlIface := reflect.TypeOf((*gopacket.DecodingLayer)(nil)).Elem()
		seen := func(l gopacket.Layer) {
			v := reflect.ValueOf(l)
			if v.Kind() != reflect.Ptr || v.IsNil() || v.Elem().Kind() != reflect.Struct {
				return
			}
			if !v.Type().Implements(dlIface) {
				return
			}
			if _, ok := dlTypes[l.LayerType()]; !ok {
				dlTypes[l.LayerType()] = v.Elem().Type()
			}
		}
		for _, t := range corp.Types {
			for i, s := range corp.Seeds[t] {
				if i >= 6 {
					break
				}
				vlib.Guard(func() {
					p := gopacket.NewPacket(s, t, gopacket.DecodeOptions{NoCopy: true, DecodeStreamsAsDatagrams: true})
					for _, l := range p.Layers() {
						seen(l)
					}
				})
			}
		}
		// every exported struct type of the library that implements DecodingLayer (constructors generated from the source
		// tree), filed under each layer type it says it can decode: the decoded corpus alone misses implementations that
		// share a layer type (OSPFv3, IGMP v1/v2) or that no packet decoder constructs (IPv6ExtensionSkipper)
		dlImpl = map[gopacket.LayerType][]reflect.Type{}
		var names []string
		for n := range gen.New {
			names = append(names, n)
		}
		sort.Strings(names)
		for _, n := range names {
			dl, ok := gen.New[n]().(gopacket.DecodingLayer)
			if !ok {
				continue
			}
			rt := reflect.TypeOf(dl).Elem()
			vlib.Guard(func() {
				for _, t := range dl.CanDecode().LayerTypes() {
					dlImpl[t] = append(dlImpl[t], rt)
					if _, ok := dlTypes[t]; !ok {
						dlTypes[t] = rt
					}
				}
			})
		}
		for t := range dlTypes {
			dlList = append(dlList, t)
		}
		sort.Slice(dlList, func(i, j int) bool { return dlList[i] < dlList[j] })
	})
	return corp
}

// newDecodingLayer returns a fresh object of the DecodingLayer implementation for t (nil when none is known).
func newDecodingLayer(t gopacket.LayerType) gopacket.DecodingLayer {
	rt, ok := dlTypes[t]
	if !ok {
		return nil
	}
	dl, _ := reflect.New(rt).Interface().(gopacket.DecodingLayer)
	return dl
}

func hx(b []byte) string {
	if len(b) > 2048 {
		return hex.EncodeToString(b[:2048]) + "..."
	}
	return hex.EncodeToString(b)
}

var allOptionSets = func() []gopacket.DecodeOptions {
	var out []gopacket.DecodeOptions
	for m := 0; m < 16; m++ {
		out = append(out, gopacket.DecodeOptions{Lazy: m&1 != 0, NoCopy: m&2 != 0, Pool: m&4 != 0, DecodeStreamsAsDatagrams: m&8 != 0})
	}
	return out
}()

func optString(o gopacket.DecodeOptions) string {
	s := ""
	if o.Lazy {
		s += "Lazy,"
	}
	if o.NoCopy {
		s += "NoCopy,"
	}
	if o.Pool {
		s += "Pool,"
	}
	if o.DecodeStreamsAsDatagrams {
		s += "DSAD,"
	}
	if o.SkipDecodeRecovery {
		s += "SkipRecovery,"
	}
	if s == "" {
		return "Default"
	}
	return s[:len(s)-1]
}

func dispose(p gopacket.Packet) {
	if pp, ok := p.(gopacket.PooledPacket); ok {
		pp.Dispose()
	}
}
