package main

import (
	"bytes"
	"errors"
	"fmt"
	"unsafe"

	"github.com/gopacket/gopacket"

	"verif/harness/internal/vlib"
)

func init() {
	vlib.Register("C18", "exhaustive", c18Exhaustive)
	vlib.Register("C18", "random", c18Random)
	vlib.Register("C18", "stack", c18Stack)
}

// sbOp is one operation on a SerializeBuffer.
type sbOp struct {
	kind byte // 'P' prepend, 'A' append, 'C' clear, 'L' push layer, 'W' rewrite an earlier returned slice
	n    int
}

func (o sbOp) String() string {
	switch o.kind {
	case 'P', 'A':
		return fmt.Sprintf("%c%d", o.kind, o.n)
	case 'C':
		return "Clear"
	case 'L':
		return "Push"
	}
	return fmt.Sprintf("W%d", o.n)
}

var c18Alphabet = []sbOp{{'P', 0}, {'P', 1}, {'P', 3}, {'P', 8}, {'P', 100}, {'A', 0}, {'A', 1}, {'A', 3}, {'A', 8}, {'A', 100}, {'C', 0}, {'L', 0}}

type sbHint struct {
	fresh    bool
	pre, app int
}

var c18Hints = []sbHint{{true, 0, 0}, {false, 0, 0}, {false, 1, 0}, {false, 0, 1}, {false, 8, 8}, {false, 100, 3}}

func (h sbHint) make() gopacket.SerializeBuffer {
	if h.fresh {
		return gopacket.NewSerializeBuffer()
	}
	return gopacket.NewSerializeBufferExpectedSize(h.pre, h.app)
}

// sbModel is the reference: a deque in virtual coordinates (prepends grow to lower coordinates).
type sbModel struct {
	data   []byte // contents
	lo     int    // virtual coordinate of data[0]
	layers []gopacket.LayerType
	old    []sbOld // returned slices since the last Clear
	opn    int
	full   bool // compare the whole contents after every op
}

type sbOld struct {
	s      []byte
	lo     int // virtual coordinate of s[0]
	serial int
}

func addr(b []byte) uintptr { return uintptr(unsafe.Pointer(unsafe.SliceData(b))) }

// step applies op to the real buffer and the model and returns a non-empty description on the first disagreement.
func (m *sbModel) step(w gopacket.SerializeBuffer, op sbOp, r *vlib.Rand) (key, desc string) {
	m.opn++
	fill := func(s []byte) {
		for i := range s {
			s[i] = byte(m.opn*29 + i*7 + 1)
		}
	}
	switch op.kind {
	case 'P', 'A':
		var ret []byte
		var err error
		if op.kind == 'P' {
			ret, err = w.PrependBytes(op.n)
		} else {
			ret, err = w.AppendBytes(op.n)
		}
		if err != nil {
			return "op-error", fmt.Sprintf("%v returned error %v", op, err)
		}
		if len(ret) != op.n {
			return "returned-length", fmt.Sprintf("%v returned a slice of length %d", op, len(ret))
		}
		fill(ret)
		nb := append([]byte{}, ret...)
		if op.kind == 'P' {
			m.data = append(nb, m.data...)
			m.lo -= op.n
			m.old = append(m.old, sbOld{ret, m.lo, m.opn})
		} else {
			m.old = append(m.old, sbOld{ret, m.lo + len(m.data), m.opn})
			m.data = append(m.data, nb...)
		}
		cur := w.Bytes()
		if op.n > 0 && len(cur) == len(m.data) {
			want := addr(cur)
			if op.kind == 'A' {
				want += uintptr(len(cur) - op.n)
			}
			if addr(ret) != want {
				return "not-a-window", fmt.Sprintf("slice returned by %v is not the window onto the contents at its position", op)
			}
		}
	case 'C':
		if err := w.Clear(); err != nil {
			return "op-error", fmt.Sprintf("Clear returned %v", err)
		}
		m.data, m.lo, m.layers, m.old = nil, 0, nil, nil
		if len(w.Bytes()) != 0 {
			return "clear-leaves-contents", fmt.Sprintf("after Clear, Bytes() has %d bytes", len(w.Bytes()))
		}
		if len(w.Layers()) != 0 {
			return "clear-leaves-layers", fmt.Sprintf("after Clear, Layers() = %v", w.Layers())
		}
	case 'L':
		t := gopacket.LayerType(1000 + m.opn)
		w.PushLayer(t)
		m.layers = append(m.layers, t)
	case 'W':
		// write again through an earlier returned slice if it is still valid (lies inside the current backing window)
		if len(m.old) == 0 {
			return
		}
		o := m.old[op.n%len(m.old)]
		cur := w.Bytes()
		if len(o.s) == 0 || len(cur) == 0 {
			return
		}
		base, a := addr(cur), addr(o.s)
		if a < base || a+uintptr(len(o.s)) > base+uintptr(len(cur)) {
			return // invalidated by a reallocation: the API allows that
		}
		if int(a-base) != o.lo-m.lo {
			return "old-slice-wrong-position", "an earlier returned slice still inside the buffer is not at the position of the bytes it was returned for"
		}
		fill(o.s)
		copy(m.data[o.lo-m.lo:], o.s)
	}
	cur := w.Bytes()
	if len(cur) != len(m.data) {
		return "contents-differ", fmt.Sprintf("after %v: Bytes()=%d bytes, model=%d bytes", op, len(cur), len(m.data))
	}
	if len(cur) > 8192 && m.opn%16 != 0 && !m.full {
		// large contents (random tier): full comparison every 16th op and at the end; head and tail windows otherwise
		if !bytes.Equal(cur[:4096], m.data[:4096]) || !bytes.Equal(cur[len(cur)-4096:], m.data[len(cur)-4096:]) {
			return "contents-differ", fmt.Sprintf("after %v: head/tail window differs", op)
		}
		return
	}
	if !bytes.Equal(cur, m.data) {
		return "contents-differ", fmt.Sprintf("after %v: Bytes()=%d bytes, model=%d bytes, first difference at %d", op, len(cur), len(m.data), firstDiff(cur, m.data))
	}
	ls := w.Layers()
	if len(ls) != len(m.layers) {
		return "layers-differ", fmt.Sprintf("Layers()=%v want %v", ls, m.layers)
	}
	for i := range ls {
		if ls[i] != m.layers[i] {
			return "layers-differ", fmt.Sprintf("Layers()=%v want %v", ls, m.layers)
		}
	}
	return
}

func firstDiff(a, b []byte) int {
	for i := 0; i < len(a) && i < len(b); i++ {
		if a[i] != b[i] {
			return i
		}
	}
	if len(a) < len(b) {
		return len(a)
	}
	return len(b)
}

func c18RunSeq(c *vlib.Ctx, h sbHint, seq []sbOp, withRewrites bool) bool {
	var w gopacket.SerializeBuffer
	var m sbModel
	var key, desc string
	pi := vlib.Guard(func() {
		w = h.make()
		if len(w.Bytes()) != 0 || len(w.Layers()) != 0 {
			key, desc = "new-buffer-not-empty", "a new buffer has contents or layers"
			return
		}
		for i, op := range seq {
			m.full = i == len(seq)-1
			if key, desc = m.step(w, op, nil); key != "" {
				desc = fmt.Sprintf("op %d: %s", i, desc)
				return
			}
			if withRewrites && len(m.old) > 0 {
				// rewrite every still-valid earlier slice (all interleavings of writes into earlier slices at this depth)
				for j := range m.old {
					if key, desc = m.step(w, sbOp{'W', j}, nil); key != "" {
						desc = fmt.Sprintf("after op %d, rewrite of slice %d: %s", i, j, desc)
						return
					}
				}
			}
		}
	})
	if pi != nil {
		key, desc = pi.Key, "panic: "+pi.Value
	}
	if key != "" {
		c.Violation(key, desc, map[string]any{"hint": fmt.Sprintf("%+v", h), "ops": fmt.Sprint(seq)})
		return false
	}
	return true
}

// c18Exhaustive enumerates every sequence over the alphabet up to the depth bound, for every initial hint.
func c18Exhaustive(c *vlib.Ctx) {
	depth := c.Pick(5, 7)
	na := len(c18Alphabet)
	// a shard is (hint, first two ops); shards are dealt round-robin to batches
	shard := 0
	for hi, h := range c18Hints {
		// sequences shorter than 2 once per hint
		if (hi % c.NBatch) == c.Batch {
			if c.Begin(100000 + hi) {
				c18RunSeq(c, h, nil, true)
				for a := 0; a < na; a++ {
					c18RunSeq(c, h, []sbOp{c18Alphabet[a]}, true)
				}
				c.Evals(na)
				c.End()
			}
		}
		for a := 0; a < na; a++ {
			for b := 0; b < na; b++ {
				shard++
				if shard%c.NBatch != c.Batch {
					continue
				}
				if !c.Begin(shard) {
					continue
				}
				seq := make([]sbOp, 2, depth)
				seq[0], seq[1] = c18Alphabet[a], c18Alphabet[b]
				n := c18Enum(c, h, seq, depth)
				c.Evals(n - 1)
				c.Count("sequences_enumerated", n)
				c.End()
			}
		}
	}
}

func c18Enum(c *vlib.Ctx, h sbHint, seq []sbOp, depth int) int {
	// run this sequence (all its prefixes were checked step by step inside c18RunSeq of the shorter sequences)
	n := 1
	ok := c18RunSeq(c, h, seq, len(seq) <= 5)
	if nontrivialSeq(seq) {
		c.NonTrivial(hashSeq(h, seq))
	}
	if c.WantSample() && len(seq) >= 4 {
		c.Sample(map[string]any{"hint": fmt.Sprintf("%+v", h), "ops": fmt.Sprint(seq)})
	}
	if !ok || len(seq) >= depth {
		return n
	}
	for a := range c18Alphabet {
		n += c18Enum(c, h, append(seq, c18Alphabet[a]), depth)
	}
	return n
}

// non-trivial: contains a prepend and an append of non-zero size (so positions matter)
func nontrivialSeq(seq []sbOp) bool {
	p, a := false, false
	for _, o := range seq {
		if o.kind == 'P' && o.n > 0 {
			p = true
		}
		if o.kind == 'A' && o.n > 0 {
			a = true
		}
	}
	return p && a
}

func hashSeq(h sbHint, seq []sbOp) uint64 {
	v := []uint64{uint64(h.pre), uint64(h.app)}
	if h.fresh {
		v = append(v, 77)
	}
	for _, o := range seq {
		v = append(v, uint64(o.kind)<<32|uint64(o.n))
	}
	return vlib.Mix(v...)
}

func c18Random(c *vlib.Ctx) {
	n := c.Pick(700, 7000)
	for i := 0; i < n; i++ {
		if !c.Begin(i) {
			continue
		}
		r := c.Rand(uint64(i))
		h := sbHint{fresh: r.Chance(1, 4), pre: r.Intn(3000), app: r.Intn(3000)}
		if r.Chance(1, 4) {
			h.pre, h.app = r.Intn(3), r.Intn(3)
		}
		ln := r.Range(50, 500)
		seq := make([]sbOp, 0, ln)
		total := 0
		for len(seq) < ln {
			var op sbOp
			switch x := r.Intn(100); {
			case x < 35:
				op = sbOp{'P', c18Size(r)}
			case x < 70:
				op = sbOp{'A', c18Size(r)}
			case x < 74:
				op = sbOp{'C', 0}
				total = 0
			case x < 80:
				op = sbOp{'L', 0}
			default:
				op = sbOp{'W', r.Intn(1000)}
			}
			if op.kind == 'P' || op.kind == 'A' {
				if total+op.n > 400000 {
					op.n = 1
				}
				total += op.n
			}
			seq = append(seq, op)
		}
		c18RunSeq(c, h, seq, false)
		c.NonTrivial(hashSeq(h, seq))
		c.Count("random_ops", len(seq))
		if c.WantSample() {
			c.Sample(map[string]any{"hint": fmt.Sprintf("%+v", h), "ops_first_40": fmt.Sprint(seq[:40]), "ops": len(seq)})
		}
		c.End()
	}
}

func c18Size(r *vlib.Rand) int {
	switch r.Intn(10) {
	case 0:
		return 0
	case 1:
		return r.Range(1000, 70000)
	case 2:
		return r.Range(100, 2000)
	}
	return r.Range(1, 64)
}

// ---- SerializeLayers: outermost first, layers recorded innermost first, buffer cleared first -------------------------

type stubLayer struct {
	t       gopacket.LayerType
	pre     []byte
	app     []byte
	fail    error
	sawLen  int // buffer length seen on entry
	sawTail []gopacket.LayerType
}

func (s *stubLayer) LayerType() gopacket.LayerType { return s.t }
func (s *stubLayer) SerializeTo(b gopacket.SerializeBuffer, o gopacket.SerializeOptions) error {
	s.sawLen = len(b.Bytes())
	s.sawTail = append([]gopacket.LayerType{}, b.Layers()...)
	if s.fail != nil {
		return s.fail
	}
	p, err := b.PrependBytes(len(s.pre))
	if err != nil {
		return err
	}
	copy(p, s.pre)
	if len(s.app) > 0 {
		a, err := b.AppendBytes(len(s.app))
		if err != nil {
			return err
		}
		copy(a, s.app)
	}
	return nil
}

func c18Stack(c *vlib.Ctx) {
	n := c.Pick(3000, 60000)
	chunk := 100
	for ci := 0; ci*chunk < n; ci++ {
		if !c.Begin(ci) {
			continue
		}
		r := c.Rand(uint64(ci))
		for k := 0; k < chunk; k++ {
			nl := r.Intn(7)
			var ls []gopacket.SerializableLayer
			var stubs []*stubLayer
			failAt := -1
			if r.Chance(1, 6) && nl > 0 {
				failAt = r.Intn(nl)
			}
			for i := 0; i < nl; i++ {
				s := &stubLayer{t: gopacket.LayerType(2000 + i*3 + r.Intn(3)), pre: r.Bytes(r.Intn(40))}
				if r.Chance(1, 4) {
					s.app = r.Bytes(r.Intn(8)) // trailers (like Ethernet padding) are appended
				}
				if i == failAt {
					s.fail = errors.New("stub failure")
				}
				stubs = append(stubs, s)
				ls = append(ls, s)
			}
			h := sbHint{fresh: r.Bool(), pre: r.Intn(64), app: r.Intn(64)}
			w := h.make()
			// dirty the buffer: SerializeLayers must clear it first
			if r.Chance(1, 4) {
				// recorded layers but no bytes: what an earlier stack that serialized to nothing leaves behind
				if r.Bool() {
					gopacket.SerializeLayers(w, gopacket.SerializeOptions{}, gopacket.Payload(nil), gopacket.Payload(nil))
				} else {
					for k := r.Range(1, 3); k > 0; k-- {
						w.PushLayer(gopacket.LayerType(990 + k))
					}
				}
			} else if r.Bool() {
				p, _ := w.PrependBytes(r.Range(1, 50))
				for i := range p {
					p[i] = 0xEE
				}
				a, _ := w.AppendBytes(r.Range(1, 50))
				for i := range a {
					a[i] = 0xDD
				}
				w.PushLayer(gopacket.LayerType(999))
			}
			var err error
			pi := vlib.Guard(func() { err = gopacket.SerializeLayers(w, gopacket.SerializeOptions{}, ls...) })
			if pi != nil {
				c.Violation(pi.Key, "SerializeLayers panicked: "+pi.Value, nil)
				continue
			}
			if failAt >= 0 {
				if err == nil {
					c.Violation("stack-error-dropped", "a layer's SerializeTo error was not returned by SerializeLayers", nil)
				}
				c.Count("stack_error_cases", 1)
				continue
			}
			if err != nil {
				c.Violation("stack-unexpected-error", err.Error(), nil)
				continue
			}
			// expected: pre[0] pre[1] ... pre[n-1] app[n-1] ... app[0]
			var want []byte
			for _, s := range stubs {
				want = append(want, s.pre...)
			}
			for i := len(stubs) - 1; i >= 0; i-- {
				want = append(want, stubs[i].app...)
			}
			if !bytes.Equal(w.Bytes(), want) {
				c.Violation("stack-bytes-order", "SerializeLayers output is not outermost-layer-first (or stale bytes survived the initial clear)", fmt.Sprintf("got %x want %x", w.Bytes(), want))
			}
			got := w.Layers()
			okL := len(got) == len(stubs)
			for i := 0; okL && i < len(got); i++ {
				if got[i] != stubs[len(stubs)-1-i].t {
					okL = false
				}
			}
			if !okL {
				c.Violation("stack-layers-order", fmt.Sprintf("Layers()=%v is not the innermost-first list of the written layers", got), nil)
			}
			// each layer saw exactly the layers inside it already recorded, and the bytes of the inner layers
			inner := 0
			for i := len(stubs) - 1; i >= 0; i-- {
				s := stubs[i]
				if s.sawLen != inner || len(s.sawTail) != len(stubs)-1-i {
					c.Violation("stack-layer-view", fmt.Sprintf("layer %d saw %d bytes/%d layers on entry, want %d/%d", i, s.sawLen, len(s.sawTail), inner, len(stubs)-1-i), nil)
					break
				}
				inner += len(s.pre) + len(s.app)
			}
			if nl >= 2 {
				c.NonTrivial(vlib.HashBytes(want, []byte{byte(nl)}))
			}
			if c.WantSample() && nl >= 3 {
				c.Sample(map[string]any{"layers_outermost_first": fmt.Sprint(got), "bytes": len(want)})
			}
			c.Evals(1)
			c.Count("stacks_checked", 1)
		}
		c.End()
	}
}
