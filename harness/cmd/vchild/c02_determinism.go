package main

import (
	"bytes"
	"fmt"
	"runtime/debug"
	"sync"
	"verif/harness/internal/corpus"

	"github.com/gopacket/gopacket"

	"verif/harness/internal/ropage"
	"verif/harness/internal/sig"
	"verif/harness/internal/vlib"
)

func init() {
	vlib.Register("C02", "determinism", c02Determinism)
	vlib.Register("C02", "concurrent", c02Concurrent)
}

func c02Sig(b []byte, t gopacket.LayerType, o gopacket.DecodeOptions) (s sig.PacketSig, pi *vlib.PanicInfo) {
	pi = vlib.Guard(func() {
		p := gopacket.NewPacket(b, t, o)
		s = sig.Packet(p, true)
		dispose(p)
	})
	return
}

// c02Determinism: history independence, placement independence, input never written.
func c02Determinism(c *vlib.Ctx) {
	corpus.RecordFirst = true
	cp := getCorpus()
	debug.SetPanicOnFault(true)
	reg, err := ropage.New(70000)
	if err != nil {
		c.Begin(0)
		c.Inconclusive("cannot map guard pages: " + err.Error())
		c.End()
		return
	}
	perType := c.Pick(60, 1500)
	idx := 0
	if len(corpus.Modified) > 0 && c.Begin(1<<28) {
		for _, name := range corpus.Modified {
			c.Violation("input-buffer-modified:while-building-inputs:"+name, "decoding a well-formed input in place (NoCopy) changed the bytes of the caller's buffer", map[string]any{"first_layer": name})
		}
		c.End()
	}
	for ti, t := range cp.Types {
		if ti%c.NBatch != c.Batch {
			continue
		}
		chunk := 30
		for k := 0; k < perType; k += chunk {
			idx++
			if !c.Begin(idx) {
				continue
			}
			r := c.Rand(uint64(t), uint64(k))
			for j := 0; j < chunk; j++ {
				in, how := cp.Input(r, t)
				if len(in) > 65536 {
					in = in[:65536]
				}
				o := allOptionSets[r.Intn(16)]
				if k == 0 && j < 8 && j/2 < len(cp.Seeds[t]) {
					// the first seeds of the type as they are, decoded in place (NoCopy), eagerly and lazily: whatever else the
					// PRNG picks, the well-formed packets of every protocol meet the read-only placement
					in, how = cp.Seeds[t][j/2], "seed"
					if len(in) > 65536 {
						in = in[:65536]
					}
					o = gopacket.DecodeOptions{NoCopy: true, Lazy: j%2 == 1}
				}
				det := func() map[string]any {
					return map[string]any{"first_layer": t.String(), "input_hex": hx(in), "mutation": how, "options": optString(o)}
				}
				// reference decode from an exact copy
				exact := make([]byte, len(in))
				copy(exact, in)
				s0, pi := c02Sig(exact, t, o)
				if pi != nil {
					continue // panics are C01's business
				}
				// (1) after decoding other packets (of any type, including failing ones) the result must be identical
				for h := r.Range(1, 6); h > 0; h-- {
					ot := cp.Types[r.Intn(len(cp.Types))]
					ob, _ := cp.Input(r, ot)
					vlib.Guard(func() {
						p := gopacket.NewPacket(ob, ot, allOptionSets[r.Intn(16)])
						p.Layers()
						_ = p.String()
						dispose(p)
					})
				}
				s1, pi := c02Sig(exact, t, o)
				if pi == nil {
					if ok, what := s0.Equal(s1); !ok {
						c.Violation("result-depends-on-history:"+t.String(), "decoding the same bytes again after other packets were decoded gives a different packet: "+what, det())
					}
				}
				// (1b) placement: in the middle of a larger buffer with other bytes around it
				big := r.Bytes(len(in) + 64)
				off := r.Range(1, 32)
				copy(big[off:], in)
				before := append([]byte{}, big...)
				s2, pi := c02Sig(big[off:off+len(in)], t, o)
				if !bytes.Equal(big, before) {
					c.Violation("input-buffer-modified:around-the-input:"+t.String(), "the buffer that holds the input (the input itself or the caller's bytes in front of / behind it) changed during decoding", det())
				}
				if pi == nil {
					if ok, what := s0.Equal(s2); !ok {
						c.Violation("result-depends-on-bytes-beyond-the-input:"+sig.DiffLayerFirst(s0, s2, t.String()), "the same bytes embedded in a larger buffer (spare capacity with other content) decode differently: "+what, det())
					}
				}
				// (2) read-only input followed by a guard page: all later read-only uses included
				ro := reg.Place(in)
				var s3 sig.PacketSig
				pi = vlib.Guard(func() {
					p := gopacket.NewPacket(ro, t, o)
					c01Accessors(p, r.Fork(), true)
					s3 = sig.Packet(p, true)
					dispose(p)
				})
				if pi != nil && pi.Addr != 0 {
					kind := reg.Classify(pi.Addr)
					c.Violation(kind+"@"+pi.Func, fmt.Sprintf("%s while decoding/using a packet whose input lives in read-only memory in front of a guard page (%s, at %s:%d)", kind, optString(o), pi.File, pi.Line), det())
				} else if pi == nil {
					if ok, what := s0.Equal(s3); !ok {
						c.Violation("result-depends-on-buffer-placement:"+sig.DiffLayerFirst(s0, s3, t.String()), "input at the end of a guard-paged mapping decodes differently: "+what, det())
					}
					if !bytes.Equal(ro, in) {
						c.Violation("input-buffer-modified:"+t.String(), "the caller's buffer changed during decoding", det())
					}
				}
				// (2b) the same with read-only spare capacity behind the input: writing there (an append to the input or to a
				// sub-slice that reaches its end) is a write to the caller's buffer too. Only faults are judged: what lies
				// behind the input may legitimately be read by nobody, so the result is not compared here.
				roomy := reg.PlaceWithRoom(in, 24)
				if pi := vlib.Guard(func() {
					p := gopacket.NewPacket(roomy, t, o)
					c01Accessors(p, r.Fork(), false)
					dispose(p)
				}); pi != nil && pi.Addr != 0 {
					if kind := reg.Classify(pi.Addr); kind == "write-to-input" {
						c.Violation("write-behind-the-input@"+pi.Func, fmt.Sprintf("write into the caller's buffer (input or its spare capacity) while decoding/using a packet (%s, at %s:%d)", optString(o), pi.File, pi.Line), det())
					}
				}
				c.Evals(4)
				if len(s0.Types) >= 3 {
					c.NonTrivial(vlib.Mix(uint64(t), vlib.HashBytes(in)))
				}
			}
			c.End()
		}
		c.CountIn("inputs_per_layer_type", t.String(), perType)
		if c.WantSample() && len(cp.Seeds[t]) > 0 {
			c.Sample(map[string]any{"layer_type": t.String(), "seed_hex": hx(cp.Seeds[t][0][:min(len(cp.Seeds[t][0]), 60)])})
		}
	}
	c.Count("read_only_placements", idx)
	// (3) the earliest decodes of this process against the latest: what the corpus builder's first decode of an input
	// returned (before the hand-made, searched and mutated inputs of every type went through the library) must be what
	// the same bytes decode to now
	idx++
	if c.Begin(idx) {
		n, unstable := 0, 0
		for _, f := range corpus.First {
			o := gopacket.DecodeOptions{NoCopy: true, DecodeStreamsAsDatagrams: f.DSAD}
			late, pi := c02Sig(f.B, f.T, o)
			again, pi2 := c02Sig(f.B, f.T, o)
			if pi != nil || pi2 != nil {
				continue
			}
			if ok, _ := late.Equal(again); !ok {
				unstable++
				continue
			}
			n++
			if ok, what := f.Sig.Equal(late); !ok {
				c.Violation("result-depends-on-history:first-decode-in-process:"+sig.DiffLayerFirst(f.Sig, late, f.T.String()), "the first decode of these bytes in this process and a decode after everything else was decoded give different packets: "+what,
					map[string]any{"first_layer": f.T.String(), "input_hex": hx(f.B), "options": optString(o)})
			}
			c.Evals(1)
		}
		c.Count("first_decodes_of_the_process_repeated_at_the_end", n)
		c.End()
	}
}

// c02Concurrent: concurrent decoders and concurrent readers of one eager packet (race build).
func c02Concurrent(c *vlib.Ctx) {
	cp := getCorpus()
	rounds := c.Pick(40, 600)
	c.SetBudget(600, 3<<30)
	for round := 0; round < rounds; round++ {
		if !c.Begin(round) {
			continue
		}
		r := c.Rand(uint64(round))
		// pick packets that decode to something interesting
		type item struct {
			b []byte
			t gopacket.LayerType
			o gopacket.DecodeOptions
			s sig.PacketSig
		}
		var items []item
		for len(items) < 24 {
			var b []byte
			var t gopacket.LayerType
			if r.Chance(2, 3) && len(cp.All) > 0 {
				b, t = cp.All[r.Intn(len(cp.All))], gopacket.LayerType(0)
				for _, lt := range cp.Types {
					if lt.String() == "Ethernet" {
						t = lt
					}
				}
			} else {
				t = cp.Types[r.Intn(len(cp.Types))]
				b, _ = cp.Input(r, t)
			}
			o := gopacket.DecodeOptions{NoCopy: r.Bool(), DecodeStreamsAsDatagrams: r.Bool()}
			s, pi := c02Sig(b, t, o)
			if pi != nil {
				continue
			}
			items = append(items, item{b, t, o, s})
		}
		// (3) G goroutines decode their inputs simultaneously; every result must equal the sequential one
		var wg sync.WaitGroup
		var mu sync.Mutex
		var bad []string
		G := r.Range(4, 8)
		for g := 0; g < G; g++ {
			wg.Add(1)
			go func(g int) {
				defer wg.Done()
				for rep := 0; rep < 6; rep++ {
					for i := g; i < len(items); i += 2 { // overlapping assignment: several goroutines decode the same input bytes
						it := items[i]
						s, pi := c02Sig(it.b, it.t, it.o)
						if pi != nil {
							continue
						}
						if ok, what := it.s.Equal(s); !ok {
							mu.Lock()
							bad = append(bad, fmt.Sprintf("%s: %s", it.t, what))
							mu.Unlock()
						}
					}
				}
			}(g)
		}
		wg.Wait()
		for _, m := range bad {
			c.Violation("concurrent-decode-differs", "a packet decoded while other goroutines decode differs from the sequential result: "+m, nil)
			break
		}
		c.Count("concurrent_decodes", G*6*len(items)/2)
		// (3b) inputs nobody has decoded before in this process, all of one layer type, decoded for the first time by
		// several goroutines at once: a decoder that fills a cache or table on first sight of a value writes shared
		// state exactly then (the sequential reference decode above would have done the write under a happens-before
		// edge). The reference is computed afterwards.
		{
			t := cp.Types[(round*7+c.Batch)%len(cp.Types)]
			type fresh struct {
				b []byte
				s sig.PacketSig
				p bool
			}
			per := make([][]fresh, G)
			for g := 0; g < G; g++ {
				rg := r.Fork()
				for k := 0; k < 24; k++ {
					b, _ := cp.Input(rg, t)
					per[g] = append(per[g], fresh{b: b})
				}
				if sd := cp.Seeds[t]; len(sd) > 0 && g < 2 {
					sw := cp.ByteSweepWide(sd[rg.Intn(min(len(sd), 4))], 96)
					for k := 0; k < 40 && len(sw) > 0; k++ {
						per[g] = append(per[g], fresh{b: sw[rg.Intn(len(sw))]})
					}
				}
			}
			o := gopacket.DecodeOptions{DecodeStreamsAsDatagrams: true}
			var wg2 sync.WaitGroup
			for g := 0; g < G; g++ {
				wg2.Add(1)
				go func(g int) {
					defer wg2.Done()
					for i := range per[g] {
						s, pi := c02Sig(per[g][i].b, t, o)
						per[g][i].s, per[g][i].p = s, pi != nil
					}
				}(g)
			}
			wg2.Wait()
			for g := 0; g < G; g++ {
				for _, f := range per[g] {
					s, pi := c02Sig(f.b, t, o)
					if (pi != nil) != f.p {
						continue
					}
					if pi == nil {
						if ok, what := s.Equal(f.s); !ok {
							c.Violation("concurrent-decode-differs:first-sight", fmt.Sprintf("%s input decoded for the first time concurrently with others differs from decoding it again alone: %s", t, what), map[string]any{"first_layer": t.String(), "input_hex": hx(f.b)})
							break
						}
					}
				}
			}
			c.Count("first_sight_concurrent_decodes", G*24)
		}
		// (5) a packet holding a layer of the caller's own type whose number was never registered (registration is only
		// needed for decoding by number): rendering it reads the layer type registry, which readers must not write
		{
			nums := []gopacket.LayerType{gopacket.LayerType(1200 + (round*16+c.Batch)%600), gopacket.LayerType(5000000 + round*16 + c.Batch)}
			for _, num := range nums {
				dec := gopacket.DecodeFunc(func(data []byte, pb gopacket.PacketBuilder) error {
					pb.AddLayer(&c02OwnLayer{t: num, b: data})
					return nil
				})
				payload := r.Bytes(r.Range(1, 40))
				p := gopacket.NewPacket(payload, dec, gopacket.DecodeOptions{})
				p.Layers()
				R := r.Range(3, 6)
				ans := make([]string, R)
				var wg5 sync.WaitGroup
				for g := 0; g < R; g++ {
					wg5.Add(1)
					go func(g int) {
						defer wg5.Done()
						vlib.Guard(func() {
							ans[g] = num.String() + "|" + p.String() + "|" + gopacket.LayerString(p.Layers()[0]) + "|" + fmt.Sprint(p.Layer(num) != nil, p.LayerClass(num) != nil)
						})
					}(g)
				}
				wg5.Wait()
				for g := 1; g < R; g++ {
					if ans[g] != ans[0] {
						c.Violation("concurrent-readers-disagree:own-layer-type", "goroutines rendering one packet with a layer of an unregistered type number got different answers", map[string]any{"layer_type_number": int64(num)})
						break
					}
				}
				c.Count("own_layer_type_packets_read_concurrently", 1)
			}
		}
		// (4) one eager packet, several readers including checksum verification and rendering
		for k := 0; k < 6; k++ {
			it := items[r.Intn(len(items))]
			var p gopacket.Packet
			if pi := vlib.Guard(func() {
				p = gopacket.NewPacket(it.b, it.t, it.o)
				p.Layers()
				// give transport layers their network layer so that checksum verification really runs
				if nl := p.NetworkLayer(); !isNilLayer(nl) {
					for _, l := range p.Layers() {
						if x, ok := l.(interface {
							SetNetworkLayerForChecksum(gopacket.NetworkLayer) error
						}); ok {
							x.SetNetworkLayerForChecksum(nl)
						}
					}
				}
			}); pi != nil {
				continue
			}
			before := sig.Packet(p, true)
			data0 := append([]byte{}, p.Data()...)
			in0 := append([]byte{}, it.b...)
			var answers [8]string
			R := r.Range(4, 8)
			seeds := make([]*vlib.Rand, R)
			for i := range seeds {
				seeds[i] = r.Fork()
			}
			var rwg sync.WaitGroup
			for i := 0; i < R; i++ {
				rwg.Add(1)
				go func(i int) {
					defer rwg.Done()
					vlib.Guard(func() {
						c01Accessors(p, seeds[i], true)
						_, mm := p.VerifyChecksums()
						answers[i] = fmt.Sprintf("%s|%d|%s", p.String(), len(mm), sig.Of(mm))
					})
				}(i)
			}
			rwg.Wait()
			for i := 1; i < R; i++ {
				if answers[i] != answers[0] {
					c.Violation("concurrent-readers-disagree:"+it.t.String(), "two goroutines reading the same eager packet got different answers (String / VerifyChecksums)", map[string]any{"input_hex": hx(it.b), "first_layer": it.t.String()})
					break
				}
			}
			after := sig.Packet(p, true)
			if ok, what := before.Equal(after); !ok {
				c.Violation("shared-packet-changed-by-readers:"+it.t.String(), "the packet differs after concurrent read-only use: "+what, map[string]any{"input_hex": hx(it.b), "first_layer": it.t.String()})
			}
			if !bytes.Equal(p.Data(), data0) || !bytes.Equal(it.b, in0) {
				c.Violation("packet-data-changed-by-readers", "Data() or the caller's buffer changed during concurrent read-only use", map[string]any{"input_hex": hx(it.b)})
			}
			hasCk := false
			for _, l := range p.Layers() {
				if _, ok := l.(gopacket.LayerWithChecksum); ok {
					hasCk = true
				}
			}
			if len(before.Types) >= 3 && hasCk {
				c.NonTrivial(vlib.Mix(uint64(it.t), vlib.HashBytes(it.b)))
				c.Count("shared_packets_with_checksum_layers", 1)
			}
			c.Count("shared_packet_reader_groups", 1)
			if c.WantSample() && hasCk {
				c.Sample(map[string]any{"shared_packet_layers": fmt.Sprint(before.Types), "readers": R, "nocopy": it.o.NoCopy})
			}
		}
		c.End()
	}
}

// c02OwnLayer is a layer type of the caller's own, with a type number that is not in the registry.
type c02OwnLayer struct {
	t gopacket.LayerType
	b []byte
}

func (l *c02OwnLayer) LayerType() gopacket.LayerType { return l.t }
func (l *c02OwnLayer) LayerContents() []byte         { return l.b }
func (l *c02OwnLayer) LayerPayload() []byte          { return nil }
