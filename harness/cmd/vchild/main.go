// vchild hosts the monitor families that link gopacket core, layers, pcapgo and the defragmenters.
// (reassembly and tcpassembly live in their own binaries: they cannot be linked together.)
package main

import (
	"fmt"

	"github.com/gopacket/gopacket/layers"

	"verif/harness/internal/vlib"
)

// canaryProps are the properties whose statement a write to the library's package-level zero buffer violates: decoding must
// be free of side effects and depend on nothing but its input (C02), serialized bytes must depend only on layer, payload
// and options (C07) - serializers copy padding from that buffer, decoders must never write to it.
var canaryProps = map[string]bool{"C02": true, "C07": true}

func main() {
	vlib.EndHook = func(c *vlib.Ctx) {
		if !canaryProps[c.Prop] {
			return
		}
		z := layers.VerifLotsOfZeros()
		for i, b := range z {
			if b != 0 {
				c.Violation("global-zero-buffer-modified", fmt.Sprintf("the package-level zero buffer of gopacket/layers (handed out as padding by serializers) holds %#02x at index %d after this case: something wrote into shared state", b, i), nil)
				for j := range z {
					z[j] = 0 // so that later cases are judged on their own
				}
				return
			}
		}
		c.Count("zero_buffer_canary_checks", 1)
	}
	vlib.ChildMain()
}
