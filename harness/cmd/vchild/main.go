// vchild hosts the monitor families that link gopacket core, layers, pcapgo and the defragmenters.
// (reassembly and tcpassembly live in their own binaries: they cannot be linked together.)
package main

import "verif/harness/internal/vlib"

func main() { vlib.ChildMain() }
