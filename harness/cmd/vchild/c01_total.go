package main

import (
	"fmt"
	"reflect"
	"strings"
	"sync"

	"github.com/gopacket/gopacket"
	"github.com/gopacket/gopacket/layers"

	"verif/harness/internal/corpus"
	"verif/harness/internal/vlib"
)

func init() {
	vlib.Register("C01", "total", c01Total)
	vlib.Register("C01", "wellformed", c01WellFormed)
	vlib.Register("C01", "shapes", c01Shapes)
}

var c01Classes = []gopacket.LayerClass{
	layers.LayerClassIPNetwork, layers.LayerClassIPTransport, layers.LayerClassIPControl, layers.LayerClassIPv6Extension,
	gopacket.NewLayerClassSlice([]gopacket.LayerType{layers.LayerTypeEthernet, layers.LayerTypeDot1Q, gopacket.LayerTypePayload}),
	gopacket.NewLayerClassMap([]gopacket.LayerType{layers.LayerTypeTCP, layers.LayerTypeDNS, gopacket.LayerTypeDecodeFailure}),
	gopacket.LayerTypePayload,
}

var c01Foreign = []gopacket.LayerType{layers.LayerTypeTCP, layers.LayerTypeDot11, gopacket.LayerTypeDecodeFailure, gopacket.LayerType(1999), gopacket.LayerType(-3)}

func isNilLayer(l gopacket.Layer) bool {
	if l == nil {
		return true
	}
	v := reflect.ValueOf(l)
	return v.Kind() == reflect.Ptr && v.IsNil()
}

// c01Accessors runs every later read-only use of the packet named in the property; order and repeats from the PRNG.
func c01Accessors(p gopacket.Packet, r *vlib.Rand, render bool) {
	steps := r.Range(6, 14)
	for s := 0; s < steps; s++ {
		switch r.Intn(12) {
		case 0:
			p.Layers()
		case 1:
			ls := p.Layers()
			if len(ls) > 0 {
				p.Layer(ls[r.Intn(len(ls))].LayerType())
			}
		case 2:
			p.Layer(c01Foreign[r.Intn(len(c01Foreign))])
		case 3:
			p.LayerClass(c01Classes[r.Intn(len(c01Classes))])
		case 4:
			p.LinkLayer()
			p.NetworkLayer()
		case 5:
			p.TransportLayer()
			p.ApplicationLayer()
		case 6:
			p.ErrorLayer()
		case 7:
			p.Metadata()
			p.Data()
		case 8:
			p.VerifyChecksums()
		case 9:
			if render {
				_ = p.String()
			}
		case 10:
			if render {
				_ = p.Dump()
			}
		case 11:
			if nl := p.NetworkLayer(); !isNilLayer(nl) {
				nl.NetworkFlow()
			}
			if tl := p.TransportLayer(); !isNilLayer(tl) {
				tl.TransportFlow()
			}
			if ll := p.LinkLayer(); !isNilLayer(ll) {
				ll.LinkFlow()
			}
		}
	}
	// LayerGoString and %v print a layer's payload in full; in a packet of thousands of layers each layer's payload is the
	// rest of the packet, so printing all of them is quadratic by construction (not a property of the library): the
	// full renderers run while a byte allowance lasts, the summarising ones (LayerString, LayerDump) on every layer
	allowance := 1 << 20
	for _, l := range p.Layers() {
		cost := len(l.LayerContents()) + len(l.LayerPayload())
		if render {
			_ = gopacket.LayerString(l)
			_ = gopacket.LayerDump(l)
			if allowance >= cost {
				allowance -= cost
				_ = gopacket.LayerGoString(l)
				_ = fmt.Sprintf("%v %+v", l, l)
			}
		}
		if x, ok := l.(interface{ LinkFlow() gopacket.Flow }); ok {
			x.LinkFlow()
		}
		if x, ok := l.(interface{ NetworkFlow() gopacket.Flow }); ok {
			x.NetworkFlow()
		}
		if x, ok := l.(interface{ TransportFlow() gopacket.Flow }); ok {
			x.TransportFlow()
		}
		if x, ok := l.(gopacket.LayerWithChecksum); ok {
			x.VerifyChecksum()
		}
		if x, ok := l.(gopacket.ApplicationLayer); ok {
			x.Payload()
		}
		c01OtherReaders(l)
	}
	p.VerifyChecksums()
	if render {
		_ = p.String()
		_ = p.Dump()
	}
}

// c01OtherReaders calls every further exported method of a decoded layer that takes no argument (the second-stage
// readers of a layer: LinkLayerDiscoveryInfo.Decode8021, RADIUS.Len, Dot11.ChecksumValid, IsRequest, ...), found by
// reflection so that a layer added later is covered too. Methods whose name says they modify the layer are left out.
// Only a panic is a verdict here; what the methods return is not judged.
func c01OtherReaders(l gopacket.Layer) {
	v := reflect.ValueOf(l)
	if !v.IsValid() || (v.Kind() == reflect.Ptr && v.IsNil()) {
		return
	}
	t := v.Type()
	for i := 0; i < t.NumMethod(); i++ {
		m := t.Method(i)
		if m.Type.NumIn() != 1 || m.Type.IsVariadic() {
			continue
		}
		n := m.Name
		if strings.HasPrefix(n, "Set") || strings.HasPrefix(n, "Reset") || strings.HasPrefix(n, "Clear") || strings.HasPrefix(n, "Init") || strings.HasPrefix(n, "Add") {
			continue
		}
		c01ReadersMu.Lock()
		c01Readers[n]++
		c01ReadersMu.Unlock()
		v.Method(i).Call(nil)
	}
}

var (
	c01Readers   = map[string]int{} // the harness's own tally: C02 calls the readers from several goroutines
	c01ReadersMu sync.Mutex
)

// c01Bookkeeping checks the error-layer rules (a)-(c); it returns whether the packet reports an error.
func c01Bookkeeping(p gopacket.Packet) (hasErr bool, key, desc string) {
	ls := p.Layers()
	e := p.ErrorLayer()
	hasErr = !isNilLayer(e)
	for i, l := range ls {
		_, isErr := l.(gopacket.ErrorLayer)
		if l.LayerType() == gopacket.LayerTypeDecodeFailure || isErr {
			if i != len(ls)-1 {
				return hasErr, "error-layer-not-last:" + l.LayerType().String(), fmt.Sprintf("layer %d of %d (%s) is an error layer but not the last layer", i, len(ls), l.LayerType())
			}
			if !hasErr {
				return hasErr, "error-layer-not-reported:" + l.LayerType().String(), fmt.Sprintf("the last layer (%s) is an error layer but ErrorLayer() is nil", l.LayerType())
			}
			if e != l {
				return hasErr, "error-layer-is-another-layer", "ErrorLayer() is not the error layer at the end of Layers()"
			}
		}
	}
	if hasErr {
		found := false
		for _, l := range ls {
			if l == gopacket.Layer(e) {
				found = true
			}
		}
		if !found {
			return hasErr, "error-layer-not-in-layers", "ErrorLayer() is non-nil but not an element of Layers()"
		}
		if len(ls) > 0 && ls[len(ls)-1] != gopacket.Layer(e) {
			return hasErr, "error-layer-not-last:" + e.LayerType().String(), "ErrorLayer() is not the last layer"
		}
	}
	return hasErr, "", ""
}

func c01One(c *vlib.Ctx, r *vlib.Rand, t gopacket.LayerType, b []byte, how string) {
	det := func(o gopacket.DecodeOptions) map[string]any {
		return map[string]any{"first_layer": t.String(), "input_hex": hx(b), "input_len": len(b), "mutation": how, "options": optString(o)}
	}
	// independent witnesses that "some part could not be decoded"
	mustErr, witness := false, ""
	if pi := vlib.Guard(func() {
		p := gopacket.NewPacket(b, t, gopacket.DecodeOptions{SkipDecodeRecovery: true, NoCopy: true})
		p.Layers()
	}); pi != nil {
		mustErr, witness = true, "decoding the same input with recovery switched off panics ("+pi.Func+")"
	}
	var dlType reflect.Type // set when the second witness is the one in use
	if dl := newDecodingLayer(t); dl != nil && !mustErr {
		var err error
		if pi := vlib.Guard(func() { err = dl.DecodeFromBytes(b, gopacket.NilDecodeFeedback) }); pi == nil && err != nil {
			mustErr, witness = true, "DecodeFromBytes of the first layer returns an error: "+err.Error()
			dlType = reflect.TypeOf(dl)
		}
	}
	renderSets := map[int]bool{r.Intn(16): true, r.Intn(16): true, 0: true}
	var errSeen [16]int // 0 unknown, 1 nil, 2 non-nil
	lastOK := ""        // last layer of a variant that decoded without error: names what decoded differently
	nontrivial := false
	for oi, o := range allOptionSets {
		var p gopacket.Packet
		var hasErr bool
		var key, desc string
		pi := vlib.Guard(func() {
			p = gopacket.NewPacket(b, t, o)
			c01Accessors(p, r.Fork(), renderSets[oi])
			hasErr, key, desc = c01Bookkeeping(p)
			if len(p.Layers()) >= 2 || hasErr {
				nontrivial = true
			}
			if key == "" && o.Lazy && len(b) > 0 {
				// "the packet says so" whichever accessor asks first: on a fresh lazy packet the error layer is requested
				// before anything else forced decoding, and must already be the one the fully decoded packet ends in
				q := gopacket.NewPacket(b, t, o)
				first := !isNilLayer(q.ErrorLayer())
				if first != hasErr {
					key, desc = "error-layer-differs-when-asked-first:"+t.String(), fmt.Sprintf("ErrorLayer() called first on a lazy packet reports error=%v, after all layers were decoded error=%v", first, hasErr)
				}
				dispose(q)
				c.Count("lazy_error_layer_asked_first", 1)
			}
		})
		c.Evals(1)
		if p != nil {
			dispose(p)
		}
		if pi != nil {
			c.Violation(pi.Key, fmt.Sprintf("decoding %s (%s) or a later read-only use panicked at %s:%d: %s", t, optString(o), pi.File, pi.Line, pi.Value), det(o))
			continue
		}
		if key != "" {
			c.Violation(key, desc, det(o))
			continue
		}
		if mustErr && !hasErr && dlType != nil {
			// several struct types can share one layer type (OSPF v2/v3, ...): the witness only counts when the packet's
			// first layer is the very type whose DecodeFromBytes was asked
			if ls := p.Layers(); len(ls) == 0 || reflect.TypeOf(ls[0]) != dlType {
				continue
			}
		}
		if mustErr && !hasErr && !(len(b) == 0 && o.Lazy) {
			c.Violation("undecodable-input-without-error-layer:"+t.String(), "the packet reports no error although "+witness, det(o))
		}
		if hasErr {
			errSeen[oi] = 2
		} else {
			errSeen[oi] = 1
			if ls := p.Layers(); len(ls) > 0 {
				lastOK = strings.ReplaceAll(ls[len(ls)-1].LayerType().String(), " ", "_")
			}
		}
	}
	if len(b) > 0 {
		// whether the packet reports an error must not depend on Lazy/NoCopy/Pool. (DecodeStreamsAsDatagrams legitimately
		// changes which decoders run after TCP, so agreement is required within each DSAD half.)
		for half := 0; half < 2; half++ {
			first := 0
			for oi := half * 8; oi < half*8+8; oi++ {
				if errSeen[oi] == 0 {
					continue
				}
				if first == 0 {
					first = errSeen[oi]
				} else if errSeen[oi] != first {
					c.Violation("error-layer-depends-on-options:"+lastOK, fmt.Sprintf("with %s the packet reports error=%v, with %s error=%v", optString(allOptionSets[half*8]), first == 2, optString(allOptionSets[oi]), errSeen[oi] == 2), det(allOptionSets[oi]))
					break
				}
			}
		}
	}
	if nontrivial {
		c.NonTrivial(vlib.Mix(uint64(t), vlib.HashBytes(b)))
	}
}

func c01Total(c *vlib.Ctx) {
	cp := getCorpus()
	perType := c.Pick(250, 6000)
	idx := 0
	for ti, t := range cp.Types {
		if ti%c.NBatch != c.Batch {
			continue
		}
		chunk := 50
		for k := 0; k < perType; k += chunk {
			idx++
			if !c.Begin(idx) {
				continue
			}
			r := c.Rand(uint64(t), uint64(k))
			for j := 0; j < chunk; j++ {
				b, how := cp.Input(r, t)
				if r.Chance(1, 300) {
					b = r.Bytes(r.Range(60000, 65536)) // the 64 KiB tier
					how = "random-64k"
				}
				c01One(c, r, t, b, how)
			}
			c01ReadersMu.Lock()
			for n, v := range c01Readers {
				c.CountIn("second_stage_reader_calls_by_method", n, v)
				delete(c01Readers, n)
			}
			c01ReadersMu.Unlock()
			c.End()
		}
		// every prefix of one seed
		if len(cp.Seeds[t]) > 0 {
			idx++
			if c.Begin(idx) {
				r := c.Rand(uint64(t), 999999)
				seed := cp.Seeds[t][r.Intn(len(cp.Seeds[t]))]
				lim := min(len(seed), c.Pick(120, 400))
				for n := 0; n <= lim; n++ {
					c01One(c, r, t, seed[:n], "prefix")
				}
				c.Count("prefixes_enumerated", lim+1)
				c.End()
			}
		}
		// structure-aware variants (tail stretched, covering length fields adjusted) of some seeds
		for si := 0; si < min(len(cp.Seeds[t]), c.Pick(5, 60)); si++ {
			idx++
			if !c.Begin(idx) {
				continue
			}
			r := c.Rand(uint64(t), 888888, uint64(si))
			seed := cp.Seeds[t][(si*7)%len(cp.Seeds[t])]
			vs, hows := cp.Structural(seed)
			for i, b := range vs {
				c01One(c, r, t, b, hows[i])
			}
			c.Count("structural_variants", len(vs))
			c.End()
		}
		c.CountIn("inputs_per_layer_type", t.String(), perType)
		if c.WantSample() && len(cp.Seeds[t]) > 0 {
			c.Sample(map[string]any{"layer_type": t.String(), "seed_hex": hx(cp.Seeds[t][0][:min(len(cp.Seeds[t][0]), 80)]), "option_sets": 16})
		}
	}
	if c.Batch == 0 {
		idx++
		if c.Begin(idx) {
			for k, v := range cp.Stats {
				c.Count("corpus_"+k, v)
			}
			c.End()
		}
	}
}

// c01WellFormed: the converse clause - packets that are well-formed by construction must carry no error layer.
func c01WellFormed(c *vlib.Ctx) {
	n := c.Pick(3000, 60000)
	chunk := 100
	for k := 0; k*chunk < n; k++ {
		if !c.Begin(k) {
			continue
		}
		r := c.Rand(uint64(k))
		for j := 0; j < chunk; j++ {
			b := corpus.ConstructedOne(r)
			for _, o := range allOptionSets {
				var p gopacket.Packet
				pi := vlib.Guard(func() {
					p = gopacket.NewPacket(b, layers.LayerTypeEthernet, o)
					p.Layers()
				})
				c.Evals(1)
				if pi != nil {
					c.Violation(pi.Key, "decoding a well-formed constructed packet panicked: "+pi.Value, map[string]any{"input_hex": hx(b), "options": optString(o)})
					break
				}
				if e := p.ErrorLayer(); !isNilLayer(e) {
					last := ""
					if ls := p.Layers(); len(ls) >= 2 {
						last = ls[len(ls)-2].LayerType().String()
					}
					c.Violation("error-layer-on-well-formed-packet:after-"+last, fmt.Sprintf("a packet built with correct lengths and checksums decodes with an error layer (%v) after %s", e.Error(), last), map[string]any{"input_hex": hx(b), "options": optString(o), "layers": fmt.Sprint(p.Layers())})
					dispose(p)
					break
				}
				if m := p.Metadata(); m != nil && m.Truncated {
					c.Violation("truncated-flag-on-well-formed-packet", "a complete constructed packet is marked truncated", map[string]any{"input_hex": hx(b), "options": optString(o)})
				}
				dispose(p)
			}
			c.NonTrivial(vlib.HashBytes(b))
			c.Count("well_formed_packets", 1)
			if c.WantSample() {
				c.Sample(map[string]any{"constructed_packet_hex": hx(b)})
			}
		}
		c.End()
	}
}

// c01Shapes: many structured variants, each through one eager and one lazy packet with every renderer - the later
// read-only uses are where a value that decoded without complaint (a 2-byte identifier of unknown type, an empty
// option) is looked at for the first time.
func c01Shapes(c *vlib.Ctx) {
	cp := getCorpus()
	idx := 0
	for ti, t := range cp.Types {
		if ti%c.NBatch != c.Batch {
			continue
		}
		seeds := cp.Seeds[t]
		for si := 0; si < min(len(seeds), c.Pick(3, 12)); si++ {
			idx++
			if !c.Begin(idx) {
				continue
			}
			r := c.Rand(uint64(t), 31337, uint64(si))
			seed := seeds[(si*11)%len(seeds)]
			vs := cp.Shrinks(seed, c.Pick(160, 600))
			st, _ := cp.Structural(seed)
			vs = append(vs, st...)
			if si < c.Pick(1, 4) {
				vs = append(vs, cp.WordSweep(seed, c.Pick(200, 600))...)
			}
			vs = append(vs, cp.LongRepeats(r, seed, c.Pick(3, 16), c.Pick(16384, 65536))...)
			vs = append(vs, cp.TextVariants(seed, c.Pick(600, 4000))...)
			vs = append(vs, cp.BigStretch(seed)...)
			if si < c.Pick(2, 6) {
				// every prefix with one of its last bytes a little smaller or larger: a length or count close to the end of
				// the input that makes the last element end exactly at, or one byte short of, the end of the data - where a
				// renderer that trusts the length reads past what was captured
				lim := min(len(seed), c.Pick(64, 400))
				for n := 2; n <= lim; n++ {
					for back := 1; back <= 5 && back <= n; back++ {
						for _, d := range []int{-1, 1} {
							v := int(seed[n-back]) + d
							if v < 0 || v > 255 {
								continue
							}
							b := append(make([]byte, 0, n), seed[:n]...)
							b[n-back] = byte(v)
							vs = append(vs, b)
						}
					}
				}
			}
			for _, b := range vs {
				c01Light(c, r, t, b)
			}
			c.Count("shape_variants", len(vs))
			c.End()
		}
	}
}

func c01Light(c *vlib.Ctx, r *vlib.Rand, t gopacket.LayerType, b []byte) {
	for _, o := range []gopacket.DecodeOptions{{}, {Lazy: true, NoCopy: true, DecodeStreamsAsDatagrams: true}} {
		var key, desc string
		var hasErr bool
		pi := vlib.Guard(func() {
			p := gopacket.NewPacket(b, t, o)
			c01Accessors(p, r.Fork(), true)
			hasErr, key, desc = c01Bookkeeping(p)
			if len(p.Layers()) >= 2 || hasErr {
				c.NonTrivial(vlib.Mix(uint64(t), vlib.HashBytes(b), 5))
			}
		})
		c.Evals(1)
		det := map[string]any{"first_layer": t.String(), "input_hex": hx(b), "input_len": len(b), "mutation": "shape", "options": optString(o)}
		if pi != nil {
			c.Violation(pi.Key, fmt.Sprintf("decoding %s (%s) or a later read-only use panicked at %s:%d: %s", t, optString(o), pi.File, pi.Line, pi.Value), det)
			return
		}
		if key != "" {
			c.Violation(key, desc, det)
			return
		}
	}
}
