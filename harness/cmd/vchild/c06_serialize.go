package main

import (
	"bytes"
	"fmt"
	"net"
	"reflect"
	"regexp"
	"sort"
	"strings"

	"github.com/gopacket/gopacket"
	"github.com/gopacket/gopacket/layers"

	"verif/harness/internal/corpus"
	"verif/harness/internal/gen"
	"verif/harness/internal/sig"
	"verif/harness/internal/vlib"
)

func init() {
	vlib.Register("C06", "roundtrip", c06Roundtrip)
	vlib.Register("C06", "stacks", c06Stacks)
	vlib.Register("C07", "buffers", c07Buffers)
	vlib.Register("C07", "fields", c07Fields)
	vlib.Register("C07", "zero", c07Zero)
}

var optsAll = []gopacket.SerializeOptions{{}, {FixLengths: true}, {ComputeChecksums: true}, {FixLengths: true, ComputeChecksums: true}}
var optsFix = gopacket.SerializeOptions{FixLengths: true, ComputeChecksums: true}

func soString(o gopacket.SerializeOptions) string {
	return fmt.Sprintf("FixLengths=%v,ComputeChecksums=%v", o.FixLengths, o.ComputeChecksums)
}

type netSetter interface {
	SetNetworkLayerForChecksum(gopacket.NetworkLayer) error
}

// serOne serializes layer l over payload with the given buffer.
func serOne(buf gopacket.SerializeBuffer, o gopacket.SerializeOptions, l gopacket.SerializableLayer, payload []byte, nl gopacket.NetworkLayer) (out []byte, err error, pi *vlib.PanicInfo) {
	if ns, ok := l.(netSetter); ok && nl != nil {
		ns.SetNetworkLayerForChecksum(nl)
	}
	pi = vlib.Guard(func() {
		err = gopacket.SerializeLayers(buf, o, l, innermost(payload))
		if err == nil {
			out = append([]byte{}, buf.Bytes()...)
		}
	})
	return
}

// c06Item is a layer value obtained by decoding, with its payload and enclosing network layer.
type c06Item struct {
	l       gopacket.SerializableLayer
	t       gopacket.LayerType
	payload []byte
	nl      gopacket.NetworkLayer
	clean   bool // the packet it came from had no error layer
	src     []byte
	first   gopacket.LayerType
	idx     int
}

// fresh returns an independent copy of the layer value by decoding the source bytes again (decoding is deterministic,
// property C02), so that every serialization starts from the same fields - SerializeTo updates length and checksum
// fields in place - including the unexported ones.
func (it c06Item) fresh() (sl gopacket.SerializableLayer) {
	vlib.Guard(func() {
		p := gopacket.NewPacket(it.src, it.first, gopacket.DecodeOptions{DecodeStreamsAsDatagrams: true})
		ls := p.Layers()
		if it.idx < len(ls) {
			sl, _ = ls[it.idx].(gopacket.SerializableLayer)
		}
	})
	if sl == nil {
		sl = it.l
	}
	return
}

// c06Harvest decodes an input and returns its serializable layers.
func c06Harvest(b []byte, t gopacket.LayerType, needClean bool) (items []c06Item) {
	vlib.Guard(func() {
		p := gopacket.NewPacket(b, t, gopacket.DecodeOptions{DecodeStreamsAsDatagrams: true})
		ls := p.Layers()
		clean := isNilLayer(p.ErrorLayer())
		if needClean && (!clean || p.Metadata().Truncated) {
			return // values cut short by the end of the input are inconsistent by construction (jumbo length without the data...)
		}
		var nl gopacket.NetworkLayer
		for i, l := range ls {
			if sl, ok := l.(gopacket.SerializableLayer); ok && l.LayerType() != gopacket.LayerTypePayload && l.LayerType() != gopacket.LayerTypeDecodeFailure && l.LayerType() != gopacket.LayerTypeFragment {
				items = append(items, c06Item{l: sl, t: l.LayerType(), payload: payloadOf(l), nl: nl, clean: clean, src: b, first: t, idx: i})
			}
			if n, ok := l.(gopacket.NetworkLayer); ok {
				switch n.(type) {
				case *layers.IPv4, *layers.IPv6:
					nl = n
				}
			}
		}
	})
	return
}

// payloadOf is the payload a layer was decoded over: LayerPayload, except for a jumbo IPv6 header, whose LayerPayload
// starts with the hop-by-hop header that the IPv6 layer carries (and writes) itself (pinned by TestIPv6JumbogramDecode).
func payloadOf(l gopacket.Layer) []byte {
	if ip6, ok := l.(*layers.IPv6); ok && ip6.HopByHop != nil && ip6.Length == 0 && len(ip6.Payload) >= ip6.HopByHop.ActualLength {
		return ip6.Payload[ip6.HopByHop.ActualLength:]
	}
	if _, ok := l.(*layers.RADIUS); ok {
		// RADIUS presents the EAP message reassembled from its EAP-Message attributes as payload: those bytes are inside
		// the layer (its Attributes), nothing follows the layer on the wire
		return nil
	}
	return l.LayerPayload()
}

// samePayload: the Ethernet serializer pads payloads to the 46 byte minimum; the padding is indistinguishable from
// payload for a frame without a length field.
func samePayload(t gopacket.LayerType, x any, want, got []byte) bool {
	if bytes.Equal(want, got) {
		return true
	}
	if t == layers.LayerTypeRADIUS {
		return true // a view of the attribute values, which are compared as the Attributes field
	}
	if e, ok := x.(*layers.Ethernet); ok && e.EthernetType == layers.EthernetTypeLLC {
		return false // an 802.3 frame carries its length: the decoder strips the padding, the payload comes back exactly
	}
	if t == layers.LayerTypeEthernet && len(want) < 46 && len(got) == 46 && bytes.Equal(got[:len(want)], want) {
		for _, x := range got[len(want):] {
			if x != 0 {
				return false
			}
		}
		return true
	}
	return false
}

// decodeFirst decodes bytes as t and returns the first layer when it is of that type and decoded without error.
// The truncation flag is read from a lazy packet on which only the first layer has been decoded, so that it is the flag
// the layer's own decoder raised (the payload may hold inner layers that were cut short in the source packet already).
func decodeFirst(b []byte, t gopacket.LayerType) (l gopacket.Layer, truncated bool, ok bool, errText string) {
	vlib.Guard(func() {
		p := gopacket.NewPacket(b, t, gopacket.DecodeOptions{DecodeStreamsAsDatagrams: true})
		ls := p.Layers()
		if len(ls) == 0 {
			errText = "no layers"
			return
		}
		if ls[0].LayerType() != t || isErrLayer(ls[0]) {
			errText = fmt.Sprintf("first layer is %s", ls[0].LayerType())
			if e := p.ErrorLayer(); !isNilLayer(e) {
				errText += ": " + e.Error().Error()
			}
			return
		}
		// an error raised by the first layer's own decoder shows as: exactly that layer followed by the failure
		if len(ls) == 2 && isErrLayer(ls[1]) && len(ls[0].LayerPayload()) == 0 && len(b) > len(ls[0].LayerContents()) {
			errText = "decoder of the layer itself failed: " + p.ErrorLayer().Error().Error()
			return
		}
		lp := gopacket.NewPacket(b, t, gopacket.DecodeOptions{DecodeStreamsAsDatagrams: true, Lazy: true})
		if ll := lp.Layer(t); !isNilLayer(ll) {
			truncated = lp.Metadata().Truncated
		}
		l, ok = ls[0], true
	})
	return
}

func typeKey(t gopacket.LayerType) string { return strings.ReplaceAll(t.String(), " ", "_") }

func c06Roundtrip(c *vlib.Ctx) {
	cp := getCorpus()
	perType := c.Pick(400, 20000)
	idx := 0
	for ti, t := range cp.Types {
		if ti%c.NBatch != c.Batch {
			continue
		}
		chunk := 50
		for k := 0; k < perType; k += chunk {
			idx++
			if !c.Begin(idx) {
				continue
			}
			r := c.Rand(uint64(t), uint64(k))
			for j := 0; j < chunk; j++ {
				b, how := cp.Input(r, t)
				if len(b) > 8192 {
					b = b[:8192]
				}
				for _, it := range c06Harvest(b, t, true) {
					c06Check(c, it, how)
				}
			}
			c.End()
		}
		// single-byte sweep of some seeds: every position x the sweep values (separators and escapes of text-like fields
		// included) - values such as a DNS label containing a dot only arise from decoding, never from building
		for si := 0; si < min(len(cp.Seeds[t]), c.Pick(3, 40)); si++ {
			idx++
			if !c.Begin(idx) {
				continue
			}
			seed := cp.Seeds[t][(si*5)%len(cp.Seeds[t])]
			if len(seed) > 1500 {
				seed = seed[:1500]
			}
			n := 0
			for _, b := range cp.ByteSweep(seed, c.Pick(128, 1500)) {
				for _, it := range c06Harvest(b, t, true) {
					c06Check(c, it, "byte-sweep")
					n++
				}
			}
			c.Count("byte_sweep_layers_checked", n)
			c.End()
		}
		// one element grown past 255 and past 65 535 bytes with every covering length field adjusted (24 and 32 bit length
		// fields included): layers that hold more than the low 8 or 16 bits of a length can say
		for si := 0; si < min(len(cp.Seeds[t]), c.Pick(4, 40)); si++ {
			idx++
			if !c.Begin(idx) {
				continue
			}
			n := 0
			for _, b := range cp.BigStretch(cp.Seeds[t][si]) {
				for _, it := range c06Harvest(b, t, true) {
					c06Check(c, it, "big-stretch")
					n++
					c.Step()
				}
				c.Step()
			}
			c.Count("big_stretch_layers_checked", n)
			c.End()
		}
	}
}

func c06Check(c *vlib.Ctx, it c06Item, how string) {
	tk := typeKey(it.t)
	det := func() map[string]any {
		return map[string]any{"layer": it.t.String(), "decoded_as": it.first.String(), "source_packet_hex": hx(it.src), "mutation": how, "payload_len": len(it.payload), "layer_value": trunc300(gopacket.LayerString(it.l.(gopacket.Layer)))}
	}
	c.CountIn("layer_values_per_type", tk, 1)
	// B - the statement itself on canonical layers
	xb := it.fresh()
	b1, err, pi := serOne(gopacket.NewSerializeBuffer(), optsFix, xb, it.payload, it.nl)
	if pi != nil || err != nil {
		if err != nil {
			c.Count("part_B_serializer_returned_error", 1)
		}
		return
	}
	if !canDecode(it.t) {
		c.CountIn("types_not_decodable_on_their_own", tk, 1) // SCTP chunks...: covered inside their parent by the stacks phase
		return
	}
	tag := layerTag(it.l.(gopacket.Layer))
	if tag != "" {
		tag = ":" + tag
	}
	l1, trunc, ok, etxt := decodeFirst(b1, it.t)
	if !ok {
		c.Violation(tk+tag+":B-does-not-decode", fmt.Sprintf("%s written with FixLengths+ComputeChecksums does not decode again: %s", it.t, etxt), det())
		return
	}
	if trunc {
		c.Violation(tk+tag+":B-truncated-flag", fmt.Sprintf("%s written with FixLengths+ComputeChecksums decodes with the truncation flag set", it.t), det())
		return
	}
	if !samePayload(it.t, l1, it.payload, payloadOf(l1)) {
		c.Violation(tk+tag+":B-payload-differs", fmt.Sprintf("%s written over a %d byte payload decodes with a %d byte payload", it.t, len(it.payload), len(payloadOf(l1))), det())
		return
	}
	// the fields of x, as the serializer left them after fixing lengths and checksums in place, are the fields read back;
	// length, count, checksum and padding fields are left to the fixpoint below: a serializer may compute them on the fly
	if path, desc := fieldsSurvive(xb, l1); path != "" {
		c.Violation(tk+tag+":B-field-lost:"+path, fmt.Sprintf("%s written with FixLengths+ComputeChecksums and decoded again differs from the layer it was written from: %s", it.t, desc), det())
		return
	}
	sl1, isSer := l1.(gopacket.SerializableLayer)
	if !isSer {
		return
	}
	b2, err, pi := serOne(gopacket.NewSerializeBuffer(), optsFix, sl1, it.payload, it.nl)
	if pi != nil {
		return
	}
	if err != nil {
		c.Violation(tk+tag+":B-rewrite-error", fmt.Sprintf("a decoded canonical %s cannot be written again: %v", it.t, err), det())
		return
	}
	if !bytes.Equal(b1, b2) {
		c.Violation(tk+tag+":B-rewrite-differs", fmt.Sprintf("writing the decoded canonical %s again gives different bytes (first difference at %d of %d/%d)", it.t, firstDiff(b1, b2), len(b1), len(b2)), det())
		return
	}
	if l2, _, ok2, _ := decodeFirst(b2, it.t); ok2 && sig.ExportedNoBase(l2) != sig.ExportedNoBase(l1) {
		path, desc := sig.ExportedNoBaseDiff(l1, l2)
		c.Violation(tk+tag+":B-fields-differ:"+path, fmt.Sprintf("canonical %s written and decoded again differs: %s", it.t, desc), det())
		return
	}
	c.Count("part_B_roundtrips", 1)
	if len(it.payload) > 0 {
		c.NonTrivial(vlib.Mix(uint64(it.t), vlib.HashString(sig.ExportedNoBase(l1)), vlib.HashBytes(it.payload)))
	}
	if c.WantSample() && len(it.payload) > 0 {
		c.Sample(map[string]any{"layer": it.t.String(), "wire_hex": hx(b1[:min(len(b1), 80)]), "payload_len": len(it.payload)})
	}
}

func canDecode(t gopacket.LayerType) (ok bool) {
	vlib.Guard(func() {
		p := gopacket.NewPacket([]byte{0, 0, 0, 0, 0, 0, 0, 0}, t, gopacket.DecodeOptions{})
		if e := p.ErrorLayer(); !isNilLayer(e) && strings.Contains(e.Error().Error(), "has no associated decoder") {
			return
		}
		ok = true
	})
	return
}

var derivedName = regexp.MustCompile(`(?i)(len|length|size|count|num|checksum|crc|fcs|cksum|padding|pad|ihl|dataoffset|offset|reserved)`)

// fieldsSurvive compares the exported leaves of the written layer and the one read back, except derived fields.
// derivedMemo caches the verdict of the derived-name pattern per field name (layers with tens of thousands of list
// elements ask the same few names over and over).
var derivedMemo = map[string]bool{}

func fieldsSurvive(x, l any) (string, string) {
	la, lb := sig.ExportedNoBaseLines(x), sig.ExportedNoBaseLines(l)
	mb := map[string]string{}
	for _, ln := range lb {
		if j := strings.Index(ln, " = "); j >= 0 {
			mb[ln[:j]] = ln[j+3:]
		}
	}
	for _, ln := range la {
		j := strings.Index(ln, " = ")
		if j < 0 {
			continue
		}
		path, val := ln[:j], ln[j+3:]
		last := path
		if k := strings.LastIndex(path, "."); k >= 0 {
			last = path[k:]
		}
		if last == ".len" { // length of a list: judged by the list's own name
			pp := path[:len(path)-4]
			if k := strings.LastIndex(pp, "."); k >= 0 {
				last = pp[k:]
			}
		}
		dv, seen := derivedMemo[last]
		if !seen {
			dv = derivedName.MatchString(last)
			derivedMemo[last] = dv
		}
		if dv {
			continue
		}
		if _, isDNS := x.(*layers.DNS); isDNS && (last == ".Data" || last == ".TXT") {
			continue // raw RDATA as found on the wire (with compression pointers); the serializer writes from the parsed fields
		}
		if _, isIP6 := x.(*layers.IPv6); isIP6 && strings.HasPrefix(path, ".HopByHop") {
			continue // the IPv6 layer's view of the hop-by-hop header, which is compared as the layer of its own that it also is
		}
		if vb, ok := mb[path]; ok && vb != val {
			return sig.StripIdx(path), fmt.Sprintf("%s (%s | %s)", path, trunc300(val), trunc300(vb))
		}
	}
	return "", ""
}

func trunc300(s string) string {
	if len(s) > 300 {
		return s[:300] + "..."
	}
	return s
}

// ---- stacks: SerializeLayers -> NewPacket -> same stack -> SerializePacket == bytes ------------------------------------

// stackOf returns the serializable layers of a decoded packet (nil when one is not serializable), wiring the network
// layer into the transport layers for their checksums.
func stackOf(p gopacket.Packet) (sls []gopacket.SerializableLayer, types []string) {
	var nl gopacket.NetworkLayer
	for _, l := range p.Layers() {
		sl, ok := l.(gopacket.SerializableLayer)
		if !ok {
			return nil, nil
		}
		if ns, ok := l.(netSetter); ok && nl != nil {
			ns.SetNetworkLayerForChecksum(nl)
		}
		switch x := l.(type) {
		case *layers.IPv4:
			nl = x
		case *layers.IPv6:
			nl = x
		}
		sls = append(sls, sl)
		types = append(types, l.LayerType().String())
	}
	return
}

func decodeEth(b []byte) (p gopacket.Packet) {
	vlib.Guard(func() {
		p = gopacket.NewPacket(b, layers.LayerTypeEthernet, gopacket.DecodeOptions{DecodeStreamsAsDatagrams: true})
		p.Layers()
	})
	return
}

// sameStack compares layer type lists; the Ethernet serializer pads frames to the 60 byte minimum, which shows as a
// trailing all-zero Payload layer after stacks that carry no length of their own (ARP...): that is accepted.
func sameStack(want []string, q gopacket.Packet, frameLen int) bool {
	var qt []string
	for _, l := range q.Layers() {
		qt = append(qt, l.LayerType().String())
	}
	if strings.Join(qt, "/") == strings.Join(want, "/") {
		return true
	}
	if frameLen == 60 && len(qt) == len(want)+1 && strings.Join(qt[:len(want)], "/") == strings.Join(want, "/") {
		last := q.Layers()[len(qt)-1]
		if last.LayerType() == gopacket.LayerTypePayload {
			for _, x := range last.LayerContents() {
				if x != 0 {
					return false
				}
			}
			return true
		}
	}
	return false
}

func c06Stacks(c *vlib.Ctx) {
	n := c.Pick(3000, 100000)
	chunk := 100
	for k := 0; k*chunk < n; k++ {
		if !c.Begin(k) {
			continue
		}
		r := c.Rand(uint64(k))
		for j := 0; j < chunk; j++ {
			wire := corpus.ConstructedOne(r)
			p0 := decodeEth(wire)
			if p0 == nil || !isNilLayer(p0.ErrorLayer()) || p0.Metadata().Truncated {
				continue
			}
			sls, types := stackOf(p0)
			if sls == nil {
				continue
			}
			det := map[string]any{"stack": strings.Join(types, "/"), "wire_hex": hx(wire)}
			key := strings.ReplaceAll(strings.Join(types, "/"), " ", "_")
			ser := func(ls []gopacket.SerializableLayer) ([]byte, error, bool) {
				buf := gopacket.NewSerializeBuffer()
				var err error
				if pi := vlib.Guard(func() { err = gopacket.SerializeLayers(buf, optsFix, ls...) }); pi != nil {
					return nil, nil, false
				}
				return append([]byte{}, buf.Bytes()...), err, true
			}
			// the stack as decoded from the constructed bytes, written with the stacking helper
			out0, err, ok := ser(sls)
			if !ok {
				continue
			}
			if err != nil {
				c.Violation("stack-serialize-error:"+key, fmt.Sprintf("the decoded stack %s cannot be written with the stacking helper: %v", key, err), det)
				continue
			}
			p := decodeEth(out0)
			if p == nil {
				continue
			}
			if !sameStack(types, p, len(out0)) {
				var qt []string
				for _, l := range p.Layers() {
					qt = append(qt, l.LayerType().String())
				}
				c.Violation(stackKey("decodes-differently", key, p0), fmt.Sprintf("stack %s written with the stacking helper decodes as %s", strings.Join(types, "/"), strings.Join(qt, "/")), det)
				continue
			}
			if p.Metadata().Truncated {
				c.Violation("stack-truncated-flag:"+key, "a written stack decodes with the truncation flag set", det)
				continue
			}
			// p is canonical now (lengths and checksums fixed): written again it must give the same bytes and fields
			sls1, types1 := stackOf(p)
			if sls1 == nil {
				continue
			}
			out1, err, ok := ser(sls1)
			if !ok {
				continue
			}
			if err != nil {
				c.Violation("stack-rewrite-error:"+key, "the stacking helper fails on the decoded canonical stack: "+err.Error(), det)
				continue
			}
			if !bytes.Equal(out0, out1) {
				c.Violation(stackKey("rewrite-differs", key, p0), fmt.Sprintf("writing the decoded canonical stack again gives different bytes (first difference at %d of %d/%d)", firstDiff(out0, out1), len(out0), len(out1)), det)
				continue
			}
			q := decodeEth(out1)
			if q == nil {
				continue
			}
			if !sameStack(types1, q, len(out1)) {
				c.Violation(stackKey("decodes-differently", key, p0), "the canonical stack written again decodes as a different stack", det)
				continue
			}
			for i, l := range p.Layers() {
				if i < len(q.Layers()) && sig.ExportedNoBase(l) != sig.ExportedNoBase(q.Layers()[i]) {
					path, desc := sig.ExportedNoBaseDiff(l, q.Layers()[i])
					c.Violation("stack-fields-differ:"+typeKey(l.LayerType())+":"+path, fmt.Sprintf("layer %d (%s) of the re-decoded stack differs: %s", i, l.LayerType(), desc), det)
					break
				}
			}
			// fields of the source stack other than lengths and checksums survive: compare the payload bytes end to end
			if a, b := p0.ApplicationLayer(), p.ApplicationLayer(); !isNilLayer(a) && !isNilLayer(b) && !bytes.Equal(a.LayerContents(), b.LayerContents()) {
				c.Violation("stack-application-bytes-differ:"+key, "the innermost payload changed through writing and decoding the stack", det)
			}
			// SerializePacket on the decoded packet reproduces the bytes
			buf2 := gopacket.NewSerializeBuffer()
			var err2 error
			stackOf(q) // wires the network layers into the transport layers
			if pi := vlib.Guard(func() { err2 = gopacket.SerializePacket(buf2, optsFix, q) }); pi == nil {
				if err2 != nil {
					c.Violation("stack-rewrite-error:"+key, "SerializePacket of the decoded stack failed: "+err2.Error(), det)
				} else if !bytes.Equal(buf2.Bytes(), out1) {
					c.Violation("stack-rewrite-differs:"+key, fmt.Sprintf("SerializePacket of the decoded stack gives different bytes (first difference at %d)", firstDiff(buf2.Bytes(), out1)), det)
				}
			}
			c.Count("stacks_round_tripped", 1)
			c.CountIn("stack_shapes", key, 1)
			c.NonTrivial(vlib.HashBytes(wire))
			if c.WantSample() {
				c.Sample(map[string]any{"stack": strings.Join(types, "/"), "bytes": len(out1)})
			}
		}
		c.End()
	}
}

// stackKey: findings that are specific to a layer feature are keyed by the feature, not by every stack shape containing it.
func stackKey(kind, key string, p gopacket.Packet) string {
	if t := stackTag(p); t != "" {
		return "stack" + t + ":" + kind
	}
	return "stack:" + kind + ":" + key
}

// stackTag names the feature of a stack that a recorded finding is specific to ("" when none applies).
func stackTag(p gopacket.Packet) string {
	for _, l := range p.Layers() {
		if t := layerTag(l); t != "" {
			return ":" + t
		}
	}
	return ""
}

// layerTag names the feature of a layer value that a recorded finding is specific to ("" when none applies).
func layerTag(l gopacket.Layer) string {
	switch x := l.(type) {
	case *layers.TCP:
		for _, o := range x.Options {
			if o.OptionType == layers.TCPOptionKindMultipathTCP {
				return "with-mptcp-option"
			}
		}
	case *layers.TLS:
		if len(x.Handshake) > 0 {
			return "with-handshake-record"
		}
	case *layers.RadioTap:
		if len(x.RadioTapValues) > 0 && !x.RadioTapValues[0].Flags.FCS() {
			return "without-fcs-flag"
		}
		if len(x.RadioTapValues) > 0 && x.RadioTapValues[0].Flags.Datapad() {
			return "with-datapad-flag"
		}
	}
	return ""
}

// ---- C07: serialization never panics; output depends only on layer, payload, options ------------------------------------

// poisonBuffer is a SerializeBuffer whose returned memory is pre-filled with a poison byte: bytes a serializer leaves
// unwritten show up as differences between two poison values (an MSan-style "used but never written" detector).
type poisonBuffer struct {
	data   []byte
	start  int
	layers []gopacket.LayerType
	poison byte
}

func newPoison(p byte) *poisonBuffer {
	return &poisonBuffer{data: make([]byte, 4096), start: 2048, poison: p}
}
func (w *poisonBuffer) Bytes() []byte { return w.data[w.start:] }
func (w *poisonBuffer) PrependBytes(n int) ([]byte, error) {
	if n < 0 {
		panic("num < 0")
	}
	for w.start < n {
		nd := make([]byte, len(w.data)*2)
		ns := w.start + len(w.data)
		copy(nd[ns:], w.data[w.start:])
		w.data, w.start = nd, ns
	}
	w.start -= n
	s := w.data[w.start : w.start+n]
	for i := range s {
		s[i] = w.poison
	}
	return s, nil
}
func (w *poisonBuffer) AppendBytes(n int) ([]byte, error) {
	if n < 0 {
		panic("num < 0")
	}
	old := len(w.data)
	w.data = append(w.data, make([]byte, n)...)
	s := w.data[old:]
	for i := range s {
		s[i] = w.poison
	}
	return s, nil
}
func (w *poisonBuffer) Clear() error {
	w.data = w.data[:w.start]
	w.start = len(w.data)
	w.data = w.data[:w.start]
	w.layers = w.layers[:0]
	return nil
}
func (w *poisonBuffer) Layers() []gopacket.LayerType   { return w.layers }
func (w *poisonBuffer) PushLayer(t gopacket.LayerType) { w.layers = append(w.layers, t) }

// tightSizes are the distances d for the "tight" buffers: a buffer pre-sized to hold all but the last d bytes of the
// output has to grow in the middle of the serialization - after the payload, after an extension header, inside the last
// header - which invalidates every slice a serializer obtained earlier and still writes through.
var tightSizes = []int{1, 8, 16, 24, 32, 40, 47, 60}

func dirtyBuffer() gopacket.SerializeBuffer {
	b := gopacket.NewSerializeBuffer()
	p, _ := b.PrependBytes(2048)
	for i := range p {
		p[i] = 0xAA
	}
	a, _ := b.AppendBytes(2048)
	for i := range a {
		a[i] = 0x55
	}
	// "previously held other data": also the record of the layers of an earlier packet, which serializers consult
	// (IPv6 looks for a hop-by-hop layer already written, ...)
	for _, t := range []gopacket.LayerType{gopacket.LayerTypePayload, layers.LayerTypeUDP, layers.LayerTypeTCP, layers.LayerTypeIPv6Destination, layers.LayerTypeIPv6HopByHop,
		layers.LayerTypeIPv6, layers.LayerTypeIPv4, layers.LayerTypeGRE, layers.LayerTypeDot1Q, layers.LayerTypeEthernet} {
		b.PushLayer(t)
	}
	b.Clear()
	return b
}

func c07Buffers(c *vlib.Ctx) {
	cp := getCorpus()
	perType := c.Pick(150, 2500)
	idx := 0
	for ti, t := range cp.Types {
		if ti%c.NBatch != c.Batch {
			continue
		}
		chunk := 50
		for k := 0; k < perType; k += chunk {
			idx++
			if !c.Begin(idx) {
				continue
			}
			r := c.Rand(uint64(t), uint64(k))
			for j := 0; j < chunk; j++ {
				b, how := cp.Input(r, t)
				if len(b) > 8192 {
					b = b[:8192]
				}
				// every layer that decoding produced, including the half-decoded ones of packets that ended in an error
				for _, it := range c06Harvest(b, t, false) {
					c07Check(c, r, it, how)
				}
			}
			c.End()
		}
	}
}

func c07Check(c *vlib.Ctx, r *vlib.Rand, it c06Item, how string) {
	tk := typeKey(it.t)
	det := func(o gopacket.SerializeOptions) map[string]any {
		return map[string]any{"layer": it.t.String(), "decoded_as": it.first.String(), "source_packet_hex": hx(it.src), "mutation": how, "payload_len": len(it.payload), "options": soString(o), "from_packet_with_error_layer": !it.clean}
	}
	c.CountIn("layer_values_per_type", tk, 1)
	for _, o := range optsAll {
		type res struct {
			name string
			out  []byte
			err  error
		}
		var rs []res
		run := func(name string, buf gopacket.SerializeBuffer, l gopacket.SerializableLayer) bool {
			out, err, pi := serOne(buf, o, l, it.payload, it.nl)
			c.Evals(1)
			if pi != nil {
				c.Violation(pi.Key, fmt.Sprintf("serializing %s (%s, %s buffer) panicked at %s:%d: %s", it.t, soString(o), name, pi.File, pi.Line, pi.Value), det(o))
				return false
			}
			rs = append(rs, res{name, out, err})
			return true
		}
		if !run("fresh", gopacket.NewSerializeBuffer(), it.fresh()) {
			break
		}
		x, y := r.Intn(200), r.Intn(200)
		if !run("pre-sized", gopacket.NewSerializeBufferExpectedSize(x, y), it.fresh()) {
			break
		}
		run("pre-sized(0,0)", gopacket.NewSerializeBufferExpectedSize(0, 0), it.fresh())
		if rs[0].err == nil {
			for _, d := range tightSizes {
				if d <= len(rs[0].out) {
					run(fmt.Sprintf("tight-%d", d), gopacket.NewSerializeBufferExpectedSize(len(rs[0].out)-d, 0), it.fresh())
				}
			}
		}
		run("dirty", dirtyBuffer(), it.fresh())
		run("poison-a5", newPoison(0xA5), it.fresh())
		run("poison-5a", newPoison(0x5A), it.fresh())
		// the same struct written twice
		same := it.fresh()
		run("first-write", gopacket.NewSerializeBuffer(), same)
		run("second-write", gopacket.NewSerializeBuffer(), same)
		ref := rs[0]
		for _, x := range rs[1:] {
			if (x.err == nil) != (ref.err == nil) {
				c.Violation("error-depends-on-buffer:"+tk+":"+x.name, fmt.Sprintf("%s (%s): the %s buffer gives err=%v, a fresh buffer err=%v", it.t, soString(o), x.name, x.err, ref.err), det(o))
				break
			}
			if x.err == nil && !bytes.Equal(x.out, ref.out) {
				key := "output-depends-on-buffer:" + tk + ":" + x.name
				if strings.HasPrefix(x.name, "poison") || x.name == "dirty" {
					key = "output-contains-unwritten-bytes:" + tk
				}
				if x.name == "second-write" {
					key = "second-write-differs:" + tk
				}
				c.Violation(key, fmt.Sprintf("%s (%s): output with the %s buffer differs from a fresh buffer at byte %d of %d", it.t, soString(o), x.name, firstDiff(x.out, ref.out), len(ref.out)), det(o))
				break
			}
		}
		if ref.err == nil {
			c.Count("serializations_compared", len(rs))
			if len(ref.out) > len(it.payload)+4 {
				c.NonTrivial(vlib.Mix(uint64(it.t), vlib.HashBytes(ref.out), uint64(len(it.payload))))
			}
		}
	}
	if c.WantSample() {
		c.Sample(map[string]any{"layer": it.t.String(), "buffer_histories": "fresh, pre-sized(x,y), pre-sized(0,0), dirty, poison 0xA5, poison 0x5A, same struct twice", "payload_len": len(it.payload)})
	}
}

// ---- C07 fields: layer values built through public fields ----------------------------------------------------------------

// mutateFields changes up to k exported fields of the layer (at any depth) in a way determined by seed only, so that
// the same mutation can be applied to several independent copies. It returns a description of what was changed.
func mutateFields(l any, seed uint64, k int) []string {
	r := vlib.NewRand(seed)
	var slots []reflect.Value
	var names []string
	var walk func(v reflect.Value, path string, depth int)
	walk = func(v reflect.Value, path string, depth int) {
		if depth > 6 || len(slots) > 400 {
			return
		}
		switch v.Kind() {
		case reflect.Ptr:
			if v.CanSet() {
				slots, names = append(slots, v), append(names, path)
			}
			if !v.IsNil() {
				walk(v.Elem(), path, depth+1)
			}
		case reflect.Struct:
			for i := 0; i < v.NumField(); i++ {
				f := v.Type().Field(i)
				if f.PkgPath != "" {
					continue
				}
				walk(v.Field(i), path+"."+f.Name, depth+1)
			}
		case reflect.Slice:
			if v.CanSet() {
				slots, names = append(slots, v), append(names, path)
			}
			if v.Type().Elem().Kind() != reflect.Uint8 {
				for i := 0; i < v.Len() && i < 8; i++ {
					walk(v.Index(i), fmt.Sprintf("%s[%d]", path, i), depth+1)
				}
			}
		case reflect.Array:
			if v.Type().Elem().Kind() != reflect.Uint8 {
				for i := 0; i < v.Len() && i < 8; i++ {
					walk(v.Index(i), fmt.Sprintf("%s[%d]", path, i), depth+1)
				}
			} else if v.CanSet() {
				slots, names = append(slots, v), append(names, path)
			}
		case reflect.Bool, reflect.Int, reflect.Int8, reflect.Int16, reflect.Int32, reflect.Int64,
			reflect.Uint, reflect.Uint8, reflect.Uint16, reflect.Uint32, reflect.Uint64, reflect.String:
			if v.CanSet() {
				slots, names = append(slots, v), append(names, path)
			}
		}
	}
	rv := reflect.ValueOf(l)
	if rv.Kind() != reflect.Ptr || rv.IsNil() {
		return nil
	}
	walk(rv.Elem(), "", 0)
	if len(slots) == 0 {
		return nil
	}
	var done []string
	for ; k > 0; k-- {
		i := r.Intn(len(slots))
		v := slots[i]
		what := ""
		switch v.Kind() {
		case reflect.Bool:
			v.SetBool(!v.Bool())
			what = "flipped"
		case reflect.Int, reflect.Int8, reflect.Int16, reflect.Int32, reflect.Int64:
			x := []int64{0, 1, -1, int64(r.U64() >> 1), -int64(r.U64() >> 1), int64(r.Intn(70000))}[r.Intn(6)]
			v.SetInt(x)
			what = fmt.Sprint("=", v.Int())
		case reflect.Uint, reflect.Uint8, reflect.Uint16, reflect.Uint32, reflect.Uint64:
			x := []uint64{0, 1, ^uint64(0), r.U64(), uint64(r.Intn(70000)), uint64(r.Intn(300))}[r.Intn(6)]
			v.SetUint(x)
			what = fmt.Sprint("=", v.Uint())
		case reflect.String:
			v.SetString(string(r.Bytes(r.Intn(300))))
			what = "random string"
		case reflect.Ptr:
			if !v.IsNil() {
				v.Set(reflect.Zero(v.Type()))
				what = "=nil"
			} else {
				v.Set(reflect.New(v.Type().Elem()))
				what = "=new zero value"
			}
		case reflect.Array:
			for j := 0; j < v.Len(); j++ {
				v.Index(j).SetUint(uint64(r.Intn(256)))
			}
			what = "random bytes"
		case reflect.Slice:
			n := v.Len()
			switch op := r.Intn(6); {
			case op == 0:
				v.Set(reflect.Zero(v.Type()))
				what = "=nil"
			case op == 1 && n > 0:
				v.Set(v.Slice(0, n-1))
				what = "shortened by one"
			case op == 2 && n > 0:
				v.Set(v.Slice(0, r.Intn(n)))
				what = fmt.Sprint("cut to ", v.Len())
			case op == 3 && n > 0:
				v.Set(reflect.AppendSlice(v.Slice(0, n), v.Slice(0, n)))
				what = "doubled"
			default:
				m := []int{1, 3, 7, 40, 255, 256, 300, 70000}[r.Intn(8)]
				if v.Type().Elem().Kind() != reflect.Uint8 {
					m = []int{1, 2, 9, 70}[r.Intn(4)]
				}
				nv := reflect.MakeSlice(v.Type(), m, m)
				if v.Type().Elem().Kind() == reflect.Uint8 {
					for j := 0; j < m; j++ {
						nv.Index(j).SetUint(uint64(r.Intn(256)))
					}
				}
				v.Set(nv)
				what = fmt.Sprint("replaced by ", m, " elements")
			}
		}
		done = append(done, names[i]+" "+what)
	}
	return done
}

func c07Fields(c *vlib.Ctx) {
	cp := getCorpus()
	perType := c.Pick(100, 2500)
	idx := 0
	for ti, t := range cp.Types {
		if ti%c.NBatch != c.Batch {
			continue
		}
		chunk := 50
		for k := 0; k < perType; k += chunk {
			idx++
			if !c.Begin(idx) {
				continue
			}
			r := c.Rand(uint64(t), uint64(k), 77)
			for j := 0; j < chunk; j++ {
				b, how := cp.Input(r, t)
				if len(b) > 4096 {
					b = b[:4096]
				}
				for _, it := range c06Harvest(b, t, false) {
					c07FieldsCheck(c, r, it, how)
				}
			}
			c.End()
		}
	}
}

func c07FieldsCheck(c *vlib.Ctx, r *vlib.Rand, it c06Item, how string) {
	tk := typeKey(it.t)
	seed := r.U64()
	k := r.Range(1, 3)
	o := optsAll[r.Intn(4)]
	payload := it.payload
	if r.Chance(1, 4) {
		payload = r.Bytes([]int{0, 1, 3, 1473, 65535, 65536, 70001}[r.Intn(7)])
	}
	var changed []string
	mk := func() gopacket.SerializableLayer {
		l := it.fresh()
		changed = mutateFields(l, seed, k)
		return l
	}
	det := func() map[string]any {
		return map[string]any{"layer": it.t.String(), "decoded_as": it.first.String(), "source_packet_hex": hx(it.src), "mutation": how, "payload_len": len(payload), "options": soString(o), "fields_changed": changed, "field_seed": seed, "field_changes": k}
	}
	type res struct {
		name string
		out  []byte
		err  error
	}
	var rs []res
	for _, bk := range []string{"fresh", "dirty", "poison-a5", "poison-5a"} {
		var buf gopacket.SerializeBuffer
		switch bk {
		case "fresh":
			buf = gopacket.NewSerializeBuffer()
		case "dirty":
			buf = dirtyBuffer()
		case "poison-a5":
			buf = newPoison(0xA5)
		default:
			buf = newPoison(0x5A)
		}
		l := mk()
		if ns, ok := l.(netSetter); ok && it.nl != nil {
			ns.SetNetworkLayerForChecksum(it.nl)
		}
		var out []byte
		var err error
		pi := vlib.Guard(func() {
			err = gopacket.SerializeLayers(buf, o, l, innermost(payload))
			if err == nil {
				out = append([]byte{}, buf.Bytes()...)
			}
		})
		c.Evals(1)
		if pi != nil {
			c.Violation("constructed:"+pi.Key, fmt.Sprintf("serializing a %s whose public fields were changed (%s; %s) panicked at %s:%d: %s", it.t, strings.Join(changed, "; "), soString(o), pi.File, pi.Line, pi.Value), det())
			return
		}
		rs = append(rs, res{bk, out, err})
	}
	if rs[0].err == nil {
		for _, d := range tightSizes {
			if d > len(rs[0].out) {
				break
			}
			buf := gopacket.NewSerializeBufferExpectedSize(len(rs[0].out)-d, 0)
			l := mk()
			if ns, ok := l.(netSetter); ok && it.nl != nil {
				ns.SetNetworkLayerForChecksum(it.nl)
			}
			var out []byte
			var err error
			pi := vlib.Guard(func() {
				err = gopacket.SerializeLayers(buf, o, l, innermost(payload))
				if err == nil {
					out = append([]byte{}, buf.Bytes()...)
				}
			})
			c.Evals(1)
			if pi != nil {
				c.Violation("constructed:"+pi.Key, fmt.Sprintf("serializing a %s whose public fields were changed (%s; %s) into a buffer that has to grow %d bytes before the end panicked at %s:%d: %s", it.t, strings.Join(changed, "; "), soString(o), d, pi.File, pi.Line, pi.Value), det())
				return
			}
			if err != nil || !bytes.Equal(out, rs[0].out) {
				c.Violation("constructed:output-depends-on-buffer-growth:"+tk, fmt.Sprintf("%s with changed fields (%s; %s): a buffer pre-sized %d bytes short of the output gives err=%v and bytes that differ from a fresh buffer at %d of %d", it.t, strings.Join(changed, "; "), soString(o), d, err, firstDiff(out, rs[0].out), len(rs[0].out)), det())
				return
			}
		}
		c.Count("tight_buffer_serializations", len(tightSizes))
	}
	for _, x := range rs[1:] {
		if (x.err == nil) != (rs[0].err == nil) {
			c.Violation("constructed:error-depends-on-buffer:"+tk, fmt.Sprintf("%s with changed fields (%s): the %s buffer gives err=%v, a fresh buffer err=%v", it.t, strings.Join(changed, "; "), x.name, x.err, rs[0].err), det())
			return
		}
		if x.err == nil && !bytes.Equal(x.out, rs[0].out) {
			c.Violation("constructed:output-contains-unwritten-bytes:"+tk, fmt.Sprintf("%s with changed fields (%s; %s): output with the %s buffer differs from a fresh buffer at byte %d of %d", it.t, strings.Join(changed, "; "), soString(o), x.name, firstDiff(x.out, rs[0].out), len(rs[0].out)), det())
			return
		}
	}
	if rs[0].err == nil {
		c.Count("constructed_values_serialized", 1)
		c.NonTrivial(vlib.Mix(uint64(it.t), seed, vlib.HashBytes(rs[0].out)))
	} else {
		c.Count("constructed_values_rejected_with_error", 1)
	}
	c.CountIn("constructed_values_per_type", tk, 1)
	if c.WantSample() {
		c.Sample(map[string]any{"layer": it.t.String(), "fields_changed": changed, "result": map[bool]string{true: "bytes", false: "error"}[rs[0].err == nil]})
	}
}

// ---- C07 zero: every serializable type, starting from its zero value ------------------------------------------------------

// c07Zero writes, for every exported struct type of the library that implements SerializableLayer (constructors generated
// from the source tree, so no type is missed because no corpus input decodes to it), the zero value and values grown from
// it by setting 1-5 public fields - "any layer value built through public fields" taken literally. Same oracle as the
// fields phase: no panic, and the same bytes or the same error-ness whatever the buffer held before.
func c07Zero(c *vlib.Ctx) {
	var names []string
	for n := range gen.New {
		if _, ok := gen.New[n]().(gopacket.SerializableLayer); ok {
			names = append(names, n)
		}
	}
	sort.Strings(names)
	perType := c.Pick(150, 4000)
	ip4 := &layers.IPv4{Version: 4, SrcIP: net.IP{10, 0, 0, 1}, DstIP: net.IP{10, 0, 0, 2}, Protocol: layers.IPProtocolUDP}
	ip6 := &layers.IPv6{Version: 6, SrcIP: net.ParseIP("fe80::1"), DstIP: net.ParseIP("fe80::2")}
	for ni, name := range names {
		if ni%c.NBatch != c.Batch {
			continue
		}
		if !c.Begin(ni) {
			continue
		}
		r := c.Rand(vlib.HashString(name))
		tk := strings.TrimPrefix(strings.TrimPrefix(name, "layers."), "gopacket.")
		for i := 0; i < perType; i++ {
			seed, k := r.U64(), 0
			if i >= 8 {
				k = r.Range(1, 5)
			}
			o := optsAll[i%4]
			payload := r.Bytes([]int{0, 0, 1, 5, 40, 1473}[r.Intn(6)])
			var nl gopacket.NetworkLayer
			switch r.Intn(3) {
			case 1:
				nl = ip4
			case 2:
				nl = ip6
			}
			var changed []string
			mk := func() gopacket.SerializableLayer {
				l := gen.New[name]().(gopacket.SerializableLayer)
				if k > 0 {
					changed = mutateFields(l, seed, k)
				}
				if ns, ok := l.(netSetter); ok && nl != nil {
					ns.SetNetworkLayerForChecksum(nl)
				}
				return l
			}
			det := func() map[string]any {
				return map[string]any{"type": name, "start": "zero value", "fields_changed": changed, "field_seed": seed, "field_changes": k, "payload_len": len(payload), "options": soString(o), "network_layer_for_checksum": fmt.Sprintf("%T", nl)}
			}
			c07Write(c, "zero", tk, name, mk, payload, o, &changed, det, vlib.Mix(vlib.HashString(name), seed))
		}
		c.CountIn("zero_value_types", tk, perType)
		c.End()
	}
}

// c07Write writes mk() into a fresh, a dirty and two poisoned buffers and compares.
func c07Write(c *vlib.Ctx, prefix, tk, what string, mk func() gopacket.SerializableLayer, payload []byte, o gopacket.SerializeOptions, changed *[]string, det func() map[string]any, nt uint64) {
	type res struct {
		name string
		out  []byte
		err  error
	}
	var rs []res
	for _, bk := range []string{"fresh", "dirty", "poison-a5", "poison-5a"} {
		var buf gopacket.SerializeBuffer
		switch bk {
		case "fresh":
			buf = gopacket.NewSerializeBuffer()
		case "dirty":
			buf = dirtyBuffer()
		case "poison-a5":
			buf = newPoison(0xA5)
		default:
			buf = newPoison(0x5A)
		}
		var out []byte
		var err error
		pi := vlib.Guard(func() {
			l := mk()
			err = gopacket.SerializeLayers(buf, o, l, innermost(payload))
			if err == nil {
				out = append([]byte{}, buf.Bytes()...)
			}
		})
		c.Evals(1)
		if pi != nil {
			c.Violation(prefix+":"+pi.Key, fmt.Sprintf("serializing a %s built through its public fields (%s; %s) panicked at %s:%d: %s", what, strings.Join(*changed, "; "), soString(o), pi.File, pi.Line, pi.Value), det())
			return
		}
		rs = append(rs, res{bk, out, err})
	}
	for _, x := range rs[1:] {
		if (x.err == nil) != (rs[0].err == nil) {
			c.Violation(prefix+":error-depends-on-buffer:"+tk, fmt.Sprintf("%s (%s): the %s buffer gives err=%v, a fresh buffer err=%v", what, strings.Join(*changed, "; "), x.name, x.err, rs[0].err), det())
			return
		}
		if x.err == nil && !bytes.Equal(x.out, rs[0].out) {
			c.Violation(prefix+":output-contains-unwritten-bytes:"+tk, fmt.Sprintf("%s (%s; %s): output with the %s buffer differs from a fresh buffer at byte %d of %d", what, strings.Join(*changed, "; "), soString(o), x.name, firstDiff(x.out, rs[0].out), len(rs[0].out)), det())
			return
		}
	}
	if rs[0].err == nil {
		c.Count(prefix+"_values_serialized", 1)
		c.NonTrivial(nt ^ vlib.HashBytes(rs[0].out))
	} else {
		c.Count(prefix+"_values_rejected_with_error", 1)
	}
	if c.WantSample() {
		c.Sample(map[string]any{"type": what, "fields_changed": *changed, "result": map[bool]string{true: "bytes", false: "error"}[rs[0].err == nil]})
	}
}

// innermost wraps the payload bytes in one of the two byte-slice layers the library offers (Payload, Fragment); which
// one is decided by the bytes, so every buffer kind of one comparison sees the same.
func innermost(payload []byte) gopacket.SerializableLayer {
	if len(payload)%2 == 1 {
		f := gopacket.Fragment(payload)
		return &f
	}
	return gopacket.Payload(payload)
}
