package main

import (
	"bytes"
	"compress/gzip"
	"encoding/binary"
	"errors"
	"fmt"
	"io"
	"os"
	"path/filepath"
	"runtime/metrics"
	"strings"
	"testing/iotest"

	"github.com/gopacket/gopacket"
	"github.com/gopacket/gopacket/pcapgo"

	"verif/harness/internal/capgen"
	"verif/harness/internal/vlib"
)

func init() {
	vlib.Register("C15", "hostile", c15Hostile)
	vlib.Register("C15", "chunking", c15Chunking)
	vlib.Register("C15", "faults", c15Faults)
}

const (
	fmtClassic = iota
	fmtNg
	fmtSnoop
)

var fmtNames = []string{"pcap", "pcapng", "snoop"}

// field is a header field of a capture file: offset, size, and what it is.
type field struct {
	off, size int
	what      string
}

// walkClassic lists the header fields of a little-endian classic pcap file written by the library.
func walkClassic(b []byte) (fs []field) {
	if len(b) < 24 {
		return
	}
	fs = append(fs, field{0, 4, "magic"}, field{4, 2, "major"}, field{6, 2, "minor"}, field{8, 4, "thiszone"}, field{12, 4, "sigfigs"}, field{16, 4, "snaplen"}, field{20, 4, "linktype"})
	off := 24
	for off+16 <= len(b) {
		fs = append(fs, field{off, 4, "ts_sec"}, field{off + 4, 4, "ts_frac"}, field{off + 8, 4, "caplen"}, field{off + 12, 4, "len"})
		cl := int(binary.LittleEndian.Uint32(b[off+8:]))
		off += 16 + cl
	}
	return
}

// walkNg lists block headers, fixed body fields and option headers of a little-endian pcapng file.
func walkNg(b []byte) (fs []field) {
	off := 0
	for off+12 <= len(b) {
		typ := binary.LittleEndian.Uint32(b[off:])
		bl := int(binary.LittleEndian.Uint32(b[off+4:]))
		if bl < 12 || off+bl > len(b) {
			break
		}
		fs = append(fs, field{off, 4, "block-type"}, field{off + 4, 4, "block-length"}, field{off + bl - 4, 4, "block-trailer"})
		body, end := off+8, off+bl-4
		optStart := -1
		switch typ {
		case 0x0A0D0D0A:
			fs = append(fs, field{body, 4, "shb-bom"}, field{body + 4, 2, "shb-major"}, field{body + 6, 2, "shb-minor"}, field{body + 8, 4, "shb-seclen-lo"}, field{body + 12, 4, "shb-seclen-hi"})
			optStart = body + 16
		case 1:
			fs = append(fs, field{body, 2, "idb-linktype"}, field{body + 2, 2, "idb-reserved"}, field{body + 4, 4, "snaplen"})
			optStart = body + 8
		case 6:
			fs = append(fs, field{body, 4, "epb-ifid"}, field{body + 4, 4, "epb-ts-hi"}, field{body + 8, 4, "epb-ts-lo"}, field{body + 12, 4, "epb-caplen"}, field{body + 16, 4, "epb-len"})
			cl := int(binary.LittleEndian.Uint32(b[body+12:]))
			optStart = body + 20 + (cl+3)&^3
		case 5:
			fs = append(fs, field{body, 4, "isb-ifid"}, field{body + 4, 4, "isb-ts-hi"}, field{body + 8, 4, "isb-ts-lo"})
			optStart = body + 12
		}
		for o := optStart; o >= 0 && o+4 <= end; {
			code := binary.LittleEndian.Uint16(b[o:])
			ol := int(binary.LittleEndian.Uint16(b[o+2:]))
			fs = append(fs, field{o, 2, fmt.Sprintf("opt-code-%d", code)}, field{o + 2, 2, fmt.Sprintf("opt-len-%d", code)})
			if code == 9 && ol == 1 && o+4 < end {
				fs = append(fs, field{o + 4, 1, "if_tsresol"})
			}
			if code == 0 {
				break
			}
			o += 4 + (ol+3)&^3
		}
		off += bl
	}
	return
}

func walkSnoop(b []byte) (fs []field) {
	if len(b) < 16 {
		return
	}
	fs = append(fs, field{0, 4, "magic-hi"}, field{4, 4, "magic-lo"}, field{8, 4, "version"}, field{12, 4, "datalink"})
	off := 16
	for off+24 <= len(b) {
		fs = append(fs, field{off, 4, "orig-len"}, field{off + 4, 4, "incl-len"}, field{off + 8, 4, "rec-len"}, field{off + 12, 4, "drops"}, field{off + 16, 4, "ts-sec"}, field{off + 20, 4, "ts-usec"})
		rl := int(binary.BigEndian.Uint32(b[off+8:]))
		if rl < 24 {
			break
		}
		off += rl
	}
	return
}

// snoopFile builds a valid snoop capture.
func snoopFile(r *vlib.Rand) ([]byte, []int) {
	var b bytes.Buffer
	b.Write([]byte{0x73, 0x6e, 0x6f, 0x6f, 0x70, 0, 0, 0})
	binary.Write(&b, binary.BigEndian, uint32(2))
	binary.Write(&b, binary.BigEndian, uint32([]int{0, 2, 4, 5, 8}[r.Intn(5)]))
	var ends []int
	for i := r.Intn(8); i > 0; i-- {
		d := r.Bytes(r.Intn(90))
		pad := (4 - len(d)%4) % 4
		binary.Write(&b, binary.BigEndian, uint32(len(d)))
		binary.Write(&b, binary.BigEndian, uint32(len(d)))
		binary.Write(&b, binary.BigEndian, uint32(24+len(d)+pad))
		binary.Write(&b, binary.BigEndian, uint32(0))
		binary.Write(&b, binary.BigEndian, r.U32()>>1)
		binary.Write(&b, binary.BigEndian, uint32(r.Intn(1000000)))
		b.Write(d)
		b.Write(make([]byte, pad))
		ends = append(ends, b.Len())
	}
	return b.Bytes(), ends
}

type c15Res struct {
	pkts     [][]byte
	cis      []gopacket.CaptureInfo
	final    string
	finalErr error
	ctor     bool
	calls    int
	maxAlloc uint64
	pi       *vlib.PanicInfo
	badLen   string
	snaplen  uint64 // declared snap length seen (largest)
}

var allocSample = []metrics.Sample{{Name: "/gc/heap/allocs:bytes"}}

func allocBytes() uint64 {
	metrics.Read(allocSample)
	return allocSample[0].Value.Uint64()
}

// c15Drive runs the reader for format f over src to the first error (or a call budget).
func c15Drive(f int, src io.Reader, streamLen int, zero bool, ngopts pcapgo.NgReaderOptions) (res c15Res) {
	if c15Ctx != nil {
		c15Ctx.Step() // one reader over one stream is the unit of work the CPU budget applies to
	}
	budget := streamLen/4 + 16
	res.pi = vlib.Guard(func() {
		type rd interface {
			ReadPacketData() ([]byte, gopacket.CaptureInfo, error)
			ZeroCopyReadPacketData() ([]byte, gopacket.CaptureInfo, error)
		}
		var r rd
		var err error
		a0 := allocBytes()
		switch f {
		case fmtClassic:
			var x *pcapgo.Reader
			x, err = pcapgo.NewReader(src)
			if x != nil {
				r = x
				res.snaplen = uint64(x.Snaplen())
				if res.snaplen == 0 {
					res.snaplen = 262144
				}
				if res.snaplen > 64<<20 {
					// the zero-copy call sizes its reusable buffer by the declared snap length, which the property allows
					// ("plus the declared snap length"); zeroing gigabytes per reader only measures memset and, on a
					// loaded machine, trips the CPU budget: such streams are read with the copying call
					zero = false
				}
			}
		case fmtNg:
			var x *pcapgo.NgReader
			x, err = pcapgo.NewNgReader(src, ngopts)
			if x != nil {
				r = x
			}
		default:
			var x *pcapgo.SnoopReader
			x, err = pcapgo.NewSnoopReader(src)
			if x != nil {
				r = x
				res.snaplen = 4096
			}
		}
		if d := allocBytes() - a0; d > res.maxAlloc {
			res.maxAlloc = d
		}
		if err != nil {
			res.final, res.finalErr, res.ctor = err.Error(), err, true
			return
		}
		if f == fmtClassic && res.snaplen > 64<<20 {
			// a declared snap length of gigabytes lets every record ask for a buffer of that size, which the property allows
			// ("plus the declared snap length"): reading on would only measure the allocator - and with sixteen children in
			// parallel exhaust the machine's memory, after which the CPU budget reports page-fault time as a runaway
			res.final = "not read: declared snap length above 64 MiB"
			if c15Ctx != nil {
				c15Ctx.Count("streams_not_read_huge_declared_snaplen", 1)
			}
			return
		}
		for {
			res.calls++
			a0 = allocBytes()
			var d []byte
			var ci gopacket.CaptureInfo
			if zero {
				d, ci, err = r.ZeroCopyReadPacketData()
			} else {
				d, ci, err = r.ReadPacketData()
			}
			if x := allocBytes() - a0; x > res.maxAlloc {
				res.maxAlloc = x
			}
			if ng, ok := r.(*pcapgo.NgReader); ok {
				for i := 0; i < ng.NInterfaces(); i++ {
					if in, e := ng.Interface(i); e == nil && uint64(in.SnapLength) > res.snaplen {
						res.snaplen = uint64(in.SnapLength)
					}
				}
			}
			if err != nil {
				res.final, res.finalErr = err.Error(), err
				return
			}
			if len(d) != ci.CaptureLength || ci.CaptureLength > ci.Length {
				res.badLen = fmt.Sprintf("call %d returned %d data bytes with CaptureLength=%d Length=%d", res.calls, len(d), ci.CaptureLength, ci.Length)
			}
			res.pkts = append(res.pkts, append([]byte{}, d...))
			res.cis = append(res.cis, ci)
			if res.calls > budget {
				res.final = "RUNAWAY"
				return
			}
		}
	})
	return
}

// c15Aux reads the stream once more interleaving the reader's other exported calls: the descriptive getters after every
// read and - for pcapng - SkipSection at a position given by the case number (also when the previous call failed). Only
// a panic or an endless run is judged here.
func c15Aux(f int, stream []byte, ngopts pcapgo.NgReaderOptions, idx int) *vlib.PanicInfo {
	budget := len(stream)/4 + 16
	return vlib.Guard(func() {
		src := bytes.NewReader(stream)
		switch f {
		case fmtClassic:
			x, err := pcapgo.NewReader(src)
			if x == nil || err != nil {
				return
			}
			_, _, _, _ = x.String(), x.Resolution(), x.LinkType(), x.Snaplen()
			if idx%8 == 0 {
				x.SetSnaplen(uint32(64 + idx%1500))
			}
			for n := 0; n < budget; n++ {
				if _, _, err := x.ReadPacketData(); err != nil {
					break
				}
				_ = x.String()
			}
		case fmtNg:
			x, err := pcapgo.NewNgReader(src, ngopts)
			if x == nil || err != nil {
				return
			}
			skipAt := idx / 4 % 5
			for n := 0; n < budget; n++ {
				_, _, _ = x.Resolution(), x.LinkType(), x.SectionInfo()
				for i := 0; i <= x.NInterfaces(); i++ {
					if in, e := x.Interface(i); e == nil {
						_ = in.Resolution()
					}
				}
				for i := -1; i <= x.NNames(); i++ {
					x.Name(i)
				}
				if n == skipAt {
					if x.SkipSection() != nil {
						break
					}
					continue
				}
				if _, _, _, err := x.ReadPacketDataWithOptions(); err != nil {
					if n > skipAt || x.SkipSection() != nil {
						break
					}
				}
			}
		default:
			x, err := pcapgo.NewSnoopReader(src)
			if x == nil || err != nil {
				return
			}
			for n := 0; n < budget; n++ {
				x.LinkType()
				if _, _, err := x.ReadPacketData(); err != nil {
					break
				}
			}
		}
	})
}

func c15Judge(c *vlib.Ctx, f int, res c15Res, stream []byte, what string, checkAlloc bool) bool {
	c.Step()
	det := func() map[string]any {
		return map[string]any{"format": fmtNames[f], "mutation": what, "stream_len": len(stream), "stream_hex": fmt.Sprintf("%x", stream[:min(len(stream), 1500)])}
	}
	tag := fmtNames[f]
	switch {
	case res.pi != nil:
		c.Violation(res.pi.Key, fmt.Sprintf("%s reader panicked (%s): %s", tag, what, res.pi.Value), det())
	case res.final == "RUNAWAY":
		c.Violation("reader-runaway:"+tag, fmt.Sprintf("%s reader returned %d packets from a %d byte stream and was still going", tag, len(res.pkts), len(stream)), det())
	case res.badLen != "":
		c.Violation("returned-lengths-inconsistent:"+tag, res.badLen, det())
	case checkAlloc && res.maxAlloc > 4<<20+4*(uint64(len(stream))+res.snaplen):
		c.Violation("allocation-out-of-proportion:"+tag, fmt.Sprintf("one call allocated %d bytes; stream has %d bytes, declared snap length %d", res.maxAlloc, len(stream), res.snaplen), det())
	default:
		return true
	}
	return false
}

// c15Bases returns valid files of every format with their kind.
var c15FixtureCache [][2]any

func c15Base(r *vlib.Rand) (f int, b []byte, cf *capgen.File) {
	switch r.Intn(6) {
	case 5:
		// the capture fixtures of the repository: they hold the block kinds the library's writers never produce (simple
		// and obsolete packet blocks, name resolution, custom and unknown blocks, big-endian sections)
		if c15FixtureCache == nil {
			for _, fx := range c15Fixtures() {
				if len(fx[1].([]byte)) <= 8192 { // every base goes through 1-byte readers and every fault position
					c15FixtureCache = append(c15FixtureCache, fx)
				}
			}
		}
		if n := len(c15FixtureCache); n > 0 {
			fx := c15FixtureCache[r.Intn(n)]
			return fx[0].(int), fx[1].([]byte), nil
		}
		fallthrough
	case 0:
		b, _ = snoopFile(r)
		return fmtSnoop, b, nil
	case 1:
		cf = capgen.Classic(r, r.Bool(), true)
		return fmtClassic, cf.Bytes, cf
	}
	cf = capgen.NgFile(r, true, false)
	return fmtNg, cf.Bytes, cf
}

var c15Vals4 = []uint32{0, 1, 3, 4, 7, 8, 11, 12, 15, 16, 23, 24, 27, 28, 31, 32, 0xffff, 0x10000, 0x7fffffff, 0x80000000, 0xfffffff0, 0xffffffff}
var c15Vals2 = []uint16{0, 1, 2, 3, 4, 5, 7, 8, 9, 11, 12, 16, 0x7fff, 0x8000, 0xfffe, 0xffff}

func c15Fixtures() [][2]any {
	var out [][2]any
	filepath.Walk(repoDir(), func(p string, info os.FileInfo, err error) error {
		if err != nil || info.IsDir() || info.Size() > 96<<10 || strings.Contains(p, "/.git/") {
			return nil
		}
		f := -1
		switch {
		case strings.HasSuffix(p, ".pcapng"), strings.HasSuffix(p, ".ntar"):
			f = fmtNg
		case strings.HasSuffix(p, ".pcap"), strings.HasSuffix(p, ".cap"):
			f = fmtClassic
		case strings.HasSuffix(p, ".snoop"):
			f = fmtSnoop
		}
		if f >= 0 {
			if b, e := os.ReadFile(p); e == nil {
				out = append(out, [2]any{f, b})
			}
		}
		return nil
	})
	return out
}

// c15Ctx is the context of the running phase (one phase per child process).
var c15Ctx *vlib.Ctx

func c15Hostile(c *vlib.Ctx) {
	c15Ctx = c
	// a header may legitimately declare a snap length of gigabytes and the readers size buffers by it: the heap watchdog is
	// replaced here by the per-call allocation monitor, which scales with the declared snap length
	c.SetBudget(30, 1<<44)
	nfiles := c.Pick(30, 700)
	fixtures := c15Fixtures()
	c.Count("repo_fixture_files", len(fixtures)/max(1, c.NBatch))
	idx := 0
	run := func(f int, stream []byte, what string, checkAlloc bool) {
		idx++
		if f == fmtClassic && len(stream) >= 20 {
			// the classic reader sizes its zero-copy buffer by the declared snap length, which the property allows; streams whose
			// (possibly mutated) header declares more than 16 MiB would only measure the machine's page-fault speed
			if le, be := binary.LittleEndian.Uint32(stream[16:]), binary.BigEndian.Uint32(stream[16:]); (le > 16<<20 && be > 16<<20) || (le > 16<<20 && stream[0] == 0xd4) || (le > 16<<20 && stream[0] == 0x4d) || (be > 16<<20 && stream[0] == 0xa1) {
				c.Count("streams_skipped_declared_snaplen_over_16MiB", 1)
				return
			}
		}
		if !c.Begin(idx) {
			return
		}
		opts := pcapgo.NgReaderOptions{}
		switch idx % 3 {
		case 1:
			opts.WantMixedLinkType = true
		case 2:
			opts.SkipUnknownVersion = true
		}
		res := c15Drive(f, bytes.NewReader(stream), len(stream), idx%2 == 0, opts)
		c15Judge(c, f, res, stream, what, checkAlloc)
		if idx%4 == 0 && !res.ctor && res.final != "not read: declared snap length above 64 MiB" {
			if pi := c15Aux(f, stream, opts, idx); pi != nil {
				c.Violation("aux:"+pi.Key, fmt.Sprintf("%s reader panicked in the calls around reading (section skipping, descriptions, resolution, names) (%s): %s", fmtNames[f], what, pi.Value),
					map[string]any{"format": fmtNames[f], "mutation": what, "stream_len": len(stream), "stream_hex": fmt.Sprintf("%x", stream[:min(len(stream), 1500)])})
			}
			c.Count("streams_read_with_auxiliary_calls", 1)
		}
		if !res.ctor {
			c.NonTrivial(vlib.HashBytes(stream))
			c.Count("streams_past_the_file_header", 1)
		}
		c.CountIn("streams_by_format", fmtNames[f], 1)
		if c.WantSample() && !res.ctor && what != "valid" {
			c.Sample(map[string]any{"format": fmtNames[f], "mutation": what, "stream_len": len(stream), "packets_returned": len(res.pkts), "final_error": res.final})
		}
		c.End()
	}
	for fi := 0; fi < nfiles; fi++ {
		r := c.Rand(uint64(fi))
		var f int
		var base []byte
		if fi%7 == 3 && len(fixtures) > 0 {
			fx := fixtures[(fi/7*c.NBatch+c.Batch)%len(fixtures)]
			f, base = fx[0].(int), fx[1].([]byte)
			if len(base) > 8192 {
				base = base[:8192]
			}
		} else {
			f, base, _ = c15Base(r)
		}
		run(f, base, "valid", true)
		var fs []field
		switch f {
		case fmtClassic:
			fs = walkClassic(base)
		case fmtNg:
			fs = walkNg(base)
		default:
			fs = walkSnoop(base)
		}
		// structure-aware: every header field x boundary values, both byte orders
		for _, fd := range fs {
			if fd.off+fd.size > len(base) {
				continue
			}
			isSnap := fd.what == "snaplen"
			switch fd.size {
			case 1:
				for v := 0; v < 256; v++ {
					m := append([]byte{}, base...)
					m[fd.off] = byte(v)
					run(f, m, fmt.Sprintf("%s@%d=%d", fd.what, fd.off, v), true)
				}
				c.Count("tsresol_values_tried", 256)
			case 2:
				cur := binary.LittleEndian.Uint16(base[fd.off:])
				vals := append([]uint16{cur + 1, cur - 1}, c15Vals2...)
				if strings.HasPrefix(fd.what, "opt-len") {
					for v := uint16(0); v <= 16; v++ {
						vals = append(vals, v)
					}
				}
				for _, v := range vals {
					m := append([]byte{}, base...)
					if f == fmtSnoop || r.Chance(1, 8) {
						binary.BigEndian.PutUint16(m[fd.off:], v)
					} else {
						binary.LittleEndian.PutUint16(m[fd.off:], v)
					}
					run(f, m, fmt.Sprintf("%s@%d=%#x", fd.what, fd.off, v), true)
				}
			case 4:
				cur := binary.LittleEndian.Uint32(base[fd.off:])
				if f == fmtSnoop {
					cur = binary.BigEndian.Uint32(base[fd.off:])
				}
				vals := append([]uint32{cur + 1, cur - 1, cur + 4, cur - 4, uint32(len(base)), uint32(len(base) - fd.off)}, c15Vals4...)
				for _, v := range vals {
					if isSnap && v > 16<<20 {
						continue // keep the declared snap length small so that a conforming reader stays small
					}
					m := append([]byte{}, base...)
					if f == fmtSnoop || r.Chance(1, 8) {
						binary.BigEndian.PutUint32(m[fd.off:], v)
					} else {
						binary.LittleEndian.PutUint32(m[fd.off:], v)
					}
					run(f, m, fmt.Sprintf("%s@%d=%#x", fd.what, fd.off, v), true)
				}
			}
		}
		c.Count("header_fields_mutated", len(fs))
		// generic mutators
		for k := 0; k < 60; k++ {
			m := append([]byte{}, base...)
			what := ""
			switch r.Intn(6) {
			case 0:
				if len(m) > 0 {
					i := r.Intn(len(m))
					m[i] ^= 1 << uint(r.Intn(8))
					what = fmt.Sprintf("bitflip@%d", i)
				}
			case 1:
				if len(m) > 0 {
					i := r.Intn(len(m))
					m[i] = []byte{0, 1, 0x7f, 0x80, 0xfe, 0xff}[r.Intn(6)]
					what = fmt.Sprintf("byte@%d", i)
				}
			case 2:
				m = m[:r.Intn(len(m)+1)]
				what = "truncate"
			case 3:
				_, o, _ := c15Base(r)
				cut := r.Intn(len(m) + 1)
				m = append(m[:cut:cut], o[r.Intn(len(o)+1):]...)
				what = "splice"
			case 4:
				if len(m) > 8 {
					i, n := r.Intn(len(m)-4), r.Range(1, 64)
					if i+n > len(m) {
						n = len(m) - i
					}
					m = append(m[:i+n:i+n], m[i:]...)
					what = "block-repeat"
				}
			default:
				m = r.Bytes(r.Intn(200))
				if r.Bool() && len(base) >= 24 {
					copy(m, base[:min(len(m), 24)])
				}
				what = "random"
			}
			if len(m) > 64<<10 {
				m = m[:64<<10]
			}
			run(f, m, what, false)
			// the wrong reader for this format must cope as well
			if k%10 == 0 {
				run((f+1)%3, m, what+"/wrong-reader", false)
			}
		}
	}
}

// ---- chunking independence and gzip ---------------------------------------------------------------------------------------

type chunkReader struct {
	r  io.Reader
	rd *vlib.Rand
	k  int
}

func (c *chunkReader) Read(p []byte) (int, error) {
	n := c.k
	if c.k == 0 {
		n = c.rd.Range(1, 7)
	}
	if n > len(p) {
		n = len(p)
	}
	return c.r.Read(p[:n])
}

func c15Same(a, b c15Res) (bool, string) {
	if (a.pi != nil) != (b.pi != nil) {
		return false, "one of them panicked"
	}
	if len(a.pkts) != len(b.pkts) {
		return false, fmt.Sprintf("%d vs %d packets", len(a.pkts), len(b.pkts))
	}
	for i := range a.pkts {
		if !bytes.Equal(a.pkts[i], b.pkts[i]) || a.cis[i].Length != b.cis[i].Length || !a.cis[i].Timestamp.Equal(b.cis[i].Timestamp) {
			return false, fmt.Sprintf("packet %d differs", i)
		}
	}
	if a.final != b.final {
		return false, fmt.Sprintf("final error %q vs %q", a.final, b.final)
	}
	return true, ""
}

func c15Chunking(c *vlib.Ctx) {
	c15Ctx = c
	c.SetBudget(30, 1<<44)
	n := c.Pick(500, 10000)
	for i := 0; i < n; i++ {
		if !c.Begin(i) {
			continue
		}
		r := c.Rand(uint64(i))
		f, base, _ := c15Base(r)
		stream := base
		what := "valid"
		if r.Chance(2, 3) && len(base) > 0 { // corrupted a little, so that error paths are compared too
			stream = append([]byte{}, base...)
			for k := r.Range(1, 3); k > 0; k-- {
				j := r.Intn(len(stream))
				stream[j] = []byte{0, 1, 4, 0x7f, 0x80, 0xff}[r.Intn(6)]
			}
			if r.Chance(1, 3) {
				stream = stream[:r.Intn(len(stream)+1)]
			}
			what = "corrupted"
		}
		zero := r.Bool()
		if f == fmtClassic && len(stream) >= 20 && (binary.LittleEndian.Uint32(stream[16:]) > 64<<20 || binary.BigEndian.Uint32(stream[16:]) > 64<<20) {
			// a corrupted snap length of gigabytes: the zero-copy reader sizes its reusable buffer by it, which the property
			// allows ("plus the declared snap length") - eight readers zeroing gigabytes each only measure memset
			zero = false
		}
		ref := c15Drive(f, bytes.NewReader(stream), len(stream), zero, pcapgo.NgReaderOptions{})
		if !c15Judge(c, f, ref, stream, what, false) {
			c.End()
			continue
		}
		det := map[string]any{"format": fmtNames[f], "stream_hex": fmt.Sprintf("%x", stream[:min(len(stream), 1500)])}
		variants := map[string]io.Reader{
			"1-byte-reads":  &chunkReader{r: bytes.NewReader(stream), k: 1},
			"1..7-byte":     &chunkReader{r: bytes.NewReader(stream), rd: r.Fork()},
			"4-byte-reads":  &chunkReader{r: bytes.NewReader(stream), k: 4},
			"data-with-eof": iotest.DataErrReader(bytes.NewReader(stream)),
			"half-reads":    iotest.HalfReader(bytes.NewReader(stream)),
		}
		for name, src := range variants {
			got := c15Drive(f, src, len(stream), zero, pcapgo.NgReaderOptions{})
			if ok, why := c15Same(ref, got); !ok {
				c.Violation("result-depends-on-chunking:"+fmtNames[f], fmt.Sprintf("reading through %s gives a different result than one big read: %s", name, why), det)
				break
			}
			c.Count("chunked_reads_compared", 1)
		}
		// gzip wrapping must be transparent (classic and pcapng readers detect it by magic)
		if f != fmtSnoop && len(stream) >= 2 {
			var zb bytes.Buffer
			zw := gzip.NewWriter(&zb)
			zw.Write(stream)
			zw.Close()
			gz := zb.Bytes()
			got := c15Drive(f, bytes.NewReader(gz), len(stream), zero, pcapgo.NgReaderOptions{})
			if ok, why := c15Same(ref, got); !ok && !(ref.ctor && got.ctor) {
				c.Violation("gzip-not-transparent:"+fmtNames[f], "the gzip-wrapped stream reads differently: "+why, det)
			}
			c.Count("gzip_reads_compared", 1)
			// truncated / corrupted gzip: anything but a panic or runaway
			bad := append([]byte{}, gz...)
			if r.Bool() {
				bad = bad[:r.Intn(len(bad)+1)]
			} else {
				bad[r.Intn(len(bad))] ^= 0xff
			}
			got = c15Drive(f, bytes.NewReader(bad), len(stream), zero, pcapgo.NgReaderOptions{})
			c15Judge(c, f, got, bad, "damaged-gzip", false)
		}
		if len(ref.pkts) > 0 {
			c.NonTrivial(vlib.HashBytes(stream))
		}
		c.End()
	}
}

// ---- injected I/O errors ----------------------------------------------------------------------------------------------------

var errInjected = errors.New("injected I/O error")

type failAt struct {
	b   []byte
	pos int
	at  int
}

func (f *failAt) Read(p []byte) (int, error) {
	if f.pos >= f.at {
		return 0, errInjected
	}
	n := copy(p, f.b[f.pos:min(len(f.b), f.at)])
	f.pos += n
	if n == 0 {
		return 0, io.EOF
	}
	return n, nil
}

func c15Faults(c *vlib.Ctx) {
	c15Ctx = c
	n := c.Pick(60, 1200)
	for i := 0; i < n; i++ {
		if !c.Begin(i) {
			continue
		}
		r := c.Rand(uint64(i))
		f, base, cf := c15Base(r)
		var ends []int
		if cf != nil {
			for _, p := range cf.Pkts {
				ends = append(ends, p.End)
			}
		} else {
			base, ends = snoopFile(r)
			f = fmtSnoop
		}
		if len(base) > 2048 {
			c.End()
			continue
		}
		opts := pcapgo.NgReaderOptions{WantMixedLinkType: cf != nil && cf.Mixed}
		clean := c15Drive(f, bytes.NewReader(base), len(base), false, opts)
		if clean.pi != nil || len(clean.pkts) != len(ends) {
			c.End()
			continue // round trip broken: C14's business
		}
		for k := 0; k <= len(base); k++ {
			res := c15Drive(f, &failAt{b: base, at: k}, len(base), r.Bool(), opts)
			c.Evals(1)
			det := map[string]any{"format": fmtNames[f], "fail_at": k, "stream_hex": fmt.Sprintf("%x", base[:min(len(base), 1500)])}
			want := 0
			for _, e := range ends {
				if e <= k {
					want++
				}
			}
			switch {
			case res.pi != nil:
				c.Violation(res.pi.Key, fmt.Sprintf("reader panicked when the stream failed at byte %d: %s", k, res.pi.Value), det)
			case k < len(base) && res.finalErr == nil:
				c.Violation("io-error-swallowed:"+fmtNames[f], "the stream failed but the reader reported no error", det)
			case len(res.pkts) > want:
				c.Violation("io-error-yields-extra-packet:"+fmtNames[f], fmt.Sprintf("stream failed at byte %d: %d packets returned, %d lie before the failure", k, len(res.pkts), want), det)
			case len(res.pkts) < want:
				c.Violation("io-error-loses-packet:"+fmtNames[f], fmt.Sprintf("stream failed at byte %d: %d packets returned, %d lie wholly before the failure", k, len(res.pkts), want), det)
			case k < len(base) && !errors.Is(res.finalErr, errInjected) && !strings.Contains(res.final, errInjected.Error()):
				c.Count("io_errors_surfaced_as_other_error", 1) // allowed by the statement (an error, not a panic), counted
			}
			for j := range res.pkts {
				if j < len(clean.pkts) && !bytes.Equal(res.pkts[j], clean.pkts[j]) {
					c.Violation("io-error-alters-packet:"+fmtNames[f], fmt.Sprintf("packet %d differs from the clean read", j), det)
					break
				}
			}
		}
		c.Count("fault_positions_enumerated", len(base)+1)
		c.NonTrivial(vlib.HashBytes(base))
		if c.WantSample() {
			c.Sample(map[string]any{"format": fmtNames[f], "file_len": len(base), "fault_positions": len(base) + 1, "packets": len(ends)})
		}
		c.End()
	}
}
