package main

import (
	"bytes"
	"encoding/hex"
	"fmt"
	"net"

	"github.com/gopacket/gopacket"
	"github.com/gopacket/gopacket/layers"

	"verif/harness/internal/pk"
	"verif/harness/internal/vlib"
)

func init() {
	vlib.Register("C17", "laws", c17Laws)
	vlib.Register("C17", "layers", c17Layers)
}

var c17Types = []gopacket.EndpointType{
	gopacket.EndpointInvalid, layers.EndpointIPv4, layers.EndpointIPv6, layers.EndpointMAC, layers.EndpointTCPPort,
	layers.EndpointUDPPort, layers.EndpointSCTPPort, layers.EndpointRUDPPort, layers.EndpointUDPLitePort, layers.EndpointPPP,
	gopacket.EndpointType(1000), gopacket.EndpointType(-1), gopacket.EndpointType(1 << 40),
}

type epModel struct {
	typ gopacket.EndpointType
	raw []byte
}

func (m epModel) eq(o epModel) bool { return m.typ == o.typ && bytes.Equal(m.raw, o.raw) }
func (m epModel) less(o epModel) bool {
	return m.typ < o.typ || (m.typ == o.typ && bytes.Compare(m.raw, o.raw) < 0)
}

// genRaw produces address bytes that like to share prefixes / differ only in length / in trailing zeros.
func genRaw(r *vlib.Rand, pool [][]byte) []byte {
	n := r.Intn(17)
	switch r.Intn(6) {
	case 0:
		return make([]byte, n) // all zero: equality must still see the length
	case 1:
		if len(pool) > 0 {
			p := pool[r.Intn(len(pool))]
			if n <= len(p) {
				return append([]byte{}, p[:n]...) // prefix of another
			}
			return append(append([]byte{}, p...), make([]byte, n-len(p))...) // zero-extended
		}
	case 2:
		if len(pool) > 0 {
			p := append([]byte{}, pool[r.Intn(len(pool))]...)
			if len(p) > 0 {
				p[r.Intn(len(p))] ^= 1 << uint(r.Intn(8))
			}
			return p
		}
	}
	return r.Bytes(n)
}

func c17Laws(c *vlib.Ctx) {
	rounds := c.Pick(6, 60)
	for round := 0; round < rounds; round++ {
		if !c.Begin(round) {
			continue
		}
		r := c.Rand(uint64(round))
		const N = 200
		var ms []epModel
		var es []gopacket.Endpoint
		var raws [][]byte
		for i := 0; i < N; i++ {
			m := epModel{c17Types[r.Intn(len(c17Types))], genRaw(r, raws)}
			if r.Chance(1, 5) && len(ms) > 0 { // same bytes, other type; or exact duplicate
				m.raw = ms[r.Intn(len(ms))].raw
				if r.Bool() {
					m.typ = ms[r.Intn(len(ms))].typ
				}
			}
			raws = append(raws, m.raw)
			var e gopacket.Endpoint
			if pi := vlib.Guard(func() { e = gopacket.NewEndpoint(m.typ, m.raw) }); pi != nil {
				c.Violation("E2-constructor-panic-len<=16", "NewEndpoint panicked for a length <= 16: "+pi.Value, hex.EncodeToString(m.raw))
				continue
			}
			if !bytes.Equal(e.Raw(), m.raw) || e.EndpointType() != m.typ {
				c.Violation("E2-raw-roundtrip", "NewEndpoint(t,b).Raw()/EndpointType() differ from the arguments", fmt.Sprintf("%v %x -> %v %x", m.typ, m.raw, e.EndpointType(), e.Raw()))
			}
			// the constructor must copy: later changes of the argument slice must not show
			if len(m.raw) > 0 {
				cp := append([]byte{}, m.raw...)
				e2 := gopacket.NewEndpoint(m.typ, cp)
				cp[0] ^= 0xff
				if e2 != e {
					c.Violation("E1-endpoint-aliases-argument", "endpoint changed when the caller's slice was modified", nil)
				}
			}
			ms = append(ms, m)
			es = append(es, e)
			c.NonTrivial(vlib.Mix(uint64(m.typ), vlib.HashBytes(m.raw)))
		}
		c.Sample(map[string]any{"endpoint_type": fmt.Sprint(ms[0].typ), "raw": hex.EncodeToString(ms[0].raw)})
		// E2 rejection above 16
		for n := 17; n <= 20; n++ {
			if pi := vlib.Guard(func() { gopacket.NewEndpoint(layers.EndpointIPv6, make([]byte, n)) }); pi == nil {
				c.Violation("E2-oversize-accepted", fmt.Sprintf("NewEndpoint accepted %d bytes", n), nil)
			}
			if pi := vlib.Guard(func() { gopacket.NewFlow(layers.EndpointIPv6, make([]byte, n), nil) }); pi == nil {
				c.Violation("E2-oversize-accepted-flow", fmt.Sprintf("NewFlow accepted %d src bytes", n), nil)
			}
			if pi := vlib.Guard(func() { gopacket.NewFlow(layers.EndpointIPv6, nil, make([]byte, n)) }); pi == nil {
				c.Violation("E2-oversize-accepted-flow", fmt.Sprintf("NewFlow accepted %d dst bytes", n), nil)
			}
			c.Count("oversize_rejections_checked", 3)
		}
		// E1/E4/E5 on all pairs
		mp := map[gopacket.Endpoint]int{}
		for i, e := range es {
			if j, ok := mp[e]; ok {
				if !ms[i].eq(ms[j]) {
					c.Violation("E1-map-key-collision", "two different (type,bytes) index the same map slot", fmt.Sprintf("%v %x / %v %x", ms[i].typ, ms[i].raw, ms[j].typ, ms[j].raw))
				}
			} else {
				mp[e] = i
			}
		}
		npairs, neq := 0, 0
		for i := range es {
			for j := range es {
				npairs++
				meq := ms[i].eq(ms[j])
				if (es[i] == es[j]) != meq {
					c.Violation("E1-equality", "endpoint == disagrees with equality of (type, bytes)", fmt.Sprintf("%v %x / %v %x", ms[i].typ, ms[i].raw, ms[j].typ, ms[j].raw))
				}
				if meq {
					neq++
					if es[i].FastHash() != es[j].FastHash() {
						c.Violation("E5-endpoint-hash", "equal endpoints with different FastHash", nil)
					}
					if _, ok := mp[es[j]]; !ok {
						c.Violation("E1-map-lookup", "equal endpoint not found as map key", nil)
					}
				}
				lt, gt := es[i].LessThan(es[j]), es[j].LessThan(es[i])
				cnt := 0
				for _, b := range []bool{lt, gt, meq} {
					if b {
						cnt++
					}
				}
				if cnt != 1 {
					c.Violation("E4-trichotomy", "not exactly one of a<b, b<a, a==b", fmt.Sprintf("%v %x / %v %x lt=%v gt=%v eq=%v", ms[i].typ, ms[i].raw, ms[j].typ, ms[j].raw, lt, gt, meq))
				}
				if lt != ms[i].less(ms[j]) {
					c.Violation("E4-order-model", "LessThan differs from (type, bytes) lexicographic order", fmt.Sprintf("%v %x / %v %x", ms[i].typ, ms[i].raw, ms[j].typ, ms[j].raw))
				}
				// flows
				if ms[i].typ == ms[j].typ {
					f, err := gopacket.FlowFromEndpoints(es[i], es[j])
					if err != nil {
						c.Violation("E3-flow-from-endpoints-error", "FlowFromEndpoints failed for equal types: "+err.Error(), nil)
						continue
					}
					s, d := f.Endpoints()
					if s != es[i] || d != es[j] || f.Src() != es[i] || f.Dst() != es[j] {
						c.Violation("E3-endpoints-roundtrip", "Endpoints()/Src()/Dst() of FlowFromEndpoints(a,b) != (a,b)", nil)
					}
					f2, _ := gopacket.FlowFromEndpoints(f.Endpoints())
					if f2 != f {
						c.Violation("E3-join-split", "FlowFromEndpoints(f.Endpoints()) != f", nil)
					}
					nf := gopacket.NewFlow(ms[i].typ, ms[i].raw, ms[j].raw)
					if nf != f {
						c.Violation("E3-newflow-vs-endpoints", "NewFlow(t,a,b) != FlowFromEndpoints(a,b)", nil)
					}
					rv := f.Reverse()
					if rv.Reverse() != f || rv.Src() != f.Dst() || rv.Dst() != f.Src() || rv.EndpointType() != f.EndpointType() {
						c.Violation("E3-reverse", "Reverse is not an involution swapping Src/Dst", nil)
					}
					if rv.FastHash() != f.FastHash() {
						c.Violation("E5-flow-hash-symmetric", "FastHash(f) != FastHash(f.Reverse())", fmt.Sprintf("%v", f))
					}
					if nf.FastHash() != f.FastHash() {
						c.Violation("E5-flow-hash-equal", "equal flows, different FastHash", nil)
					}
					if (f == rv) != ms[i].eq(ms[j]) {
						c.Violation("E1-flow-equality", "flow == its reverse iff src == dst violated", nil)
					}
					fm := map[gopacket.Flow]bool{f: true}
					if !fm[nf] || (fm[rv] != (f == rv)) {
						c.Violation("E1-flow-map", "flows do not behave as map keys", nil)
					}
					c.Count("flows_checked", 1)
				} else {
					if _, err := gopacket.FlowFromEndpoints(es[i], es[j]); err == nil {
						c.Violation("E3-mismatched-types-accepted", "FlowFromEndpoints accepted different endpoint types", nil)
					}
					c.Count("type_mismatch_rejections", 1)
				}
			}
		}
		c.Count("endpoint_pairs", npairs)
		c.Count("equal_pairs", neq)
		// E4 transitivity on all triples
		lt := make([][]bool, len(es))
		for i := range es {
			lt[i] = make([]bool, len(es))
			for j := range es {
				lt[i][j] = es[i].LessThan(es[j])
			}
		}
		ntr := 0
		for i := range es {
			if lt[i][i] {
				c.Violation("E4-irreflexive", "a < a", nil)
			}
			for j := range es {
				if !lt[i][j] {
					continue
				}
				for k := range es {
					ntr++
					if lt[j][k] && !lt[i][k] {
						c.Violation("E4-transitive", "a<b, b<c but not a<c", nil)
					}
				}
			}
		}
		c.Count("ordered_triples", ntr)
		c.Evals(npairs)
		c.End()
	}
}

// ---- E6: flows of decoded layers carry exactly the addresses that were put on the wire -------------------------------

type flowCase struct {
	name                   string
	first                  gopacket.LayerType
	fwd, rev               []byte
	link, net, tr          bool
	lsrc, ldst, nsrc, ndst []byte
	tsrc, tdst             []byte
	ltyp, ntyp, ttyp       gopacket.EndpointType
}

func c17BuildCase(r *vlib.Rand) flowCase {
	var fc flowCase
	macA, macB := pk.M6(r.Bytes(6)), pk.M6(r.Bytes(6))
	v6 := r.Bool()
	a4, b4 := pk.A4(r.Bytes(4)), pk.A4(r.Bytes(4))
	a16, b16 := pk.A16(r.Bytes(16)), pk.A16(r.Bytes(16))
	sp, dp := r.U16(), r.U16()
	// addresses with structure (a flow must carry them as they are on the wire, whatever they look like): IPv4-mapped,
	// IPv4-compatible, unspecified, loopback, multicast and all-ones IPv6 addresses, limited broadcast / zero IPv4
	// addresses, zero / broadcast MACs, ports 0 and 65535 - for either side or both
	special16 := func() [16]byte {
		var a [16]byte
		switch r.Intn(6) {
		case 0: // ::ffff:a.b.c.d
			a[10], a[11] = 0xff, 0xff
			copy(a[12:], r.Bytes(4))
		case 1: // ::a.b.c.d
			copy(a[12:], r.Bytes(4))
		case 2: // ::
		case 3: // ::1
			a[15] = 1
		case 4: // ff02::x
			a[0], a[1], a[15] = 0xff, 2, r.Byte()
		default:
			for i := range a {
				a[i] = 0xff
			}
		}
		return a
	}
	if r.Chance(1, 4) {
		switch r.Intn(3) {
		case 0:
			a16 = special16()
		case 1:
			b16 = special16()
		default:
			a16, b16 = special16(), special16()
		}
		if r.Bool() {
			a4 = [4]byte{}
		}
		if r.Bool() {
			b4 = [4]byte{255, 255, 255, 255}
		}
		if r.Chance(1, 3) {
			macB = [6]byte{255, 255, 255, 255, 255, 255}
		}
		if r.Chance(1, 3) {
			macA = [6]byte{}
		}
		if r.Chance(1, 3) {
			sp = []uint16{0, 65535, 255, 256}[r.Intn(4)]
		}
		if r.Chance(1, 3) {
			dp = []uint16{0, 65535, 255, 256}[r.Intn(4)]
		}
	}
	if r.Chance(1, 6) { // same endpoints both ways
		b4, b16, dp, macB = a4, a16, sp, macA
	}
	payload := r.Bytes(r.Intn(40))
	trKind := r.Intn(5)
	build := func(swap bool) []byte {
		s4, d4, s16, d16, s, d, sm, dm := a4, b4, a16, b16, sp, dp, macA, macB
		if swap {
			s4, d4, s16, d16, s, d, sm, dm = b4, a4, b16, a16, dp, sp, macB, macA
		}
		var proto uint8
		var seg []byte
		pseudo := func(p uint8) func(int) []byte {
			return func(n int) []byte {
				if v6 {
					return pk.PseudoV6(s16, d16, p, n)
				}
				return pk.PseudoV4(s4, d4, p, n)
			}
		}
		switch trKind {
		case 0:
			proto = 6
			seg = pk.TCP(pk.TCPH{Sport: s, Dport: d, Seq: 1, Flags: pk.ACK, Window: 100}, payload, pseudo(6))
		case 1:
			proto = 17
			seg = pk.UDP(s, d, payload, pseudo(17))
		case 2: // SCTP common header + no chunks
			proto = 132
			seg = make([]byte, 12)
			seg[0], seg[1], seg[2], seg[3] = byte(s>>8), byte(s), byte(d>>8), byte(d)
		case 3: // UDPLite
			proto = 136
			seg = pk.UDP(s, d, payload, nil)
			seg[4], seg[5] = 0, 8
		case 4: // RUDP: 1-byte ports
			proto = 27
			seg = make([]byte, 18)
			seg[0] = 0x40
			seg[1] = 9
			seg[2], seg[3] = byte(s), byte(d)
		}
		var ip []byte
		etype := uint16(0x0800)
		if v6 {
			etype = 0x86dd
			ip = pk.IPv6(pk.IPv6H{NextHdr: proto, HopLimit: 64, Src: s16, Dst: d16}, seg)
		} else {
			ip = pk.IPv4(pk.IPv4H{TTL: 64, Proto: proto, Src: s4, Dst: d4, ID: 7}, seg)
		}
		return pk.Eth(dm, sm, etype, ip)
	}
	fc.fwd, fc.rev = build(false), build(true)
	fc.first = layers.LayerTypeEthernet
	fc.link, fc.net, fc.tr = true, true, true
	fc.ltyp, fc.lsrc, fc.ldst = layers.EndpointMAC, macA[:], macB[:]
	if v6 {
		fc.ntyp, fc.nsrc, fc.ndst = layers.EndpointIPv6, a16[:], b16[:]
	} else {
		fc.ntyp, fc.nsrc, fc.ndst = layers.EndpointIPv4, a4[:], b4[:]
	}
	be := func(v uint16) []byte { return []byte{byte(v >> 8), byte(v)} }
	fc.tsrc, fc.tdst = be(sp), be(dp)
	switch trKind {
	case 0:
		fc.ttyp, fc.name = layers.EndpointTCPPort, "eth/ip/tcp"
	case 1:
		fc.ttyp, fc.name = layers.EndpointUDPPort, "eth/ip/udp"
	case 2:
		fc.ttyp, fc.name = layers.EndpointSCTPPort, "eth/ip/sctp"
	case 3:
		fc.ttyp, fc.name = layers.EndpointUDPLitePort, "eth/ip/udplite"
	case 4:
		fc.ttyp, fc.name = layers.EndpointRUDPPort, "eth/ip/rudp"
		fc.tsrc, fc.tdst = []byte{byte(sp)}, []byte{byte(dp)}
	}
	if v6 {
		fc.name += "(v6)"
	}
	return fc
}

func c17CheckFlow(c *vlib.Ctx, what string, f gopacket.Flow, typ gopacket.EndpointType, src, dst []byte, input []byte) {
	if f.EndpointType() != typ || !bytes.Equal(f.Src().Raw(), src) || !bytes.Equal(f.Dst().Raw(), dst) {
		c.Violation("E6-flow-addresses:"+what, fmt.Sprintf("%s flow %v does not carry the addresses on the wire (want %v %x->%x)", what, f, typ, src, dst), hex.EncodeToString(input))
	}
}

// c17Helpers: "interchangeable as map keys" for the endpoints a user makes with the layers package's constructors from the
// addresses and ports of a decoded layer: they must be the very endpoints the layer's flow carries (both forms of an IPv4
// address, net.IP of 4 and of 16 bytes, name the same endpoint).
func c17Helpers(c *vlib.Ctx, p gopacket.Packet, input []byte) {
	same := func(what string, made, carried gopacket.Endpoint) {
		c.Count("helper_endpoints_compared", 1)
		m := map[gopacket.Endpoint]int{carried: 1}
		if made != carried || m[made] != 1 {
			c.Violation("E1-helper-endpoint-differs:"+what, fmt.Sprintf("the endpoint made by the %s constructor (%v, raw %x) is not equal to the one the decoded layer's flow carries (%v, raw %x)", what, made.EndpointType(), made.Raw(), carried.EndpointType(), carried.Raw()), hex.EncodeToString(input))
		}
	}
	for _, l := range p.Layers() {
		switch x := l.(type) {
		case *layers.Ethernet:
			same("NewMACEndpoint", layers.NewMACEndpoint(x.SrcMAC), x.LinkFlow().Src())
			same("NewMACEndpoint", layers.NewMACEndpoint(x.DstMAC), x.LinkFlow().Dst())
		case *layers.IPv4:
			if len(x.SrcIP) == 4 && len(x.DstIP) == 4 {
				same("NewIPEndpoint", layers.NewIPEndpoint(x.SrcIP), x.NetworkFlow().Src())
				same("NewIPEndpoint", layers.NewIPEndpoint(x.DstIP), x.NetworkFlow().Dst())
				same("NewIPEndpoint-16-byte-form", layers.NewIPEndpoint(x.SrcIP.To16()), x.NetworkFlow().Src())
				same("NewIPEndpoint-16-byte-form", layers.NewIPEndpoint(net.IPv4(x.DstIP[0], x.DstIP[1], x.DstIP[2], x.DstIP[3])), x.NetworkFlow().Dst())
			}
		case *layers.IPv6:
			if len(x.SrcIP) == 16 && x.SrcIP.To4() == nil {
				same("NewIPEndpoint", layers.NewIPEndpoint(x.SrcIP), x.NetworkFlow().Src())
			}
			if len(x.DstIP) == 16 && x.DstIP.To4() == nil {
				same("NewIPEndpoint", layers.NewIPEndpoint(x.DstIP), x.NetworkFlow().Dst())
			}
		case *layers.TCP:
			same("NewTCPPortEndpoint", layers.NewTCPPortEndpoint(x.SrcPort), x.TransportFlow().Src())
			same("NewTCPPortEndpoint", layers.NewTCPPortEndpoint(x.DstPort), x.TransportFlow().Dst())
		case *layers.UDP:
			same("NewUDPPortEndpoint", layers.NewUDPPortEndpoint(x.SrcPort), x.TransportFlow().Src())
			same("NewUDPPortEndpoint", layers.NewUDPPortEndpoint(x.DstPort), x.TransportFlow().Dst())
		case *layers.SCTP:
			same("NewSCTPPortEndpoint", layers.NewSCTPPortEndpoint(x.SrcPort), x.TransportFlow().Src())
			same("NewSCTPPortEndpoint", layers.NewSCTPPortEndpoint(x.DstPort), x.TransportFlow().Dst())
		case *layers.RUDP:
			same("NewRUDPPortEndpoint", layers.NewRUDPPortEndpoint(x.SrcPort), x.TransportFlow().Src())
			same("NewRUDPPortEndpoint", layers.NewRUDPPortEndpoint(x.DstPort), x.TransportFlow().Dst())
		case *layers.UDPLite:
			same("NewUDPLitePortEndpoint", layers.NewUDPLitePortEndpoint(x.SrcPort), x.TransportFlow().Src())
			same("NewUDPLitePortEndpoint", layers.NewUDPLitePortEndpoint(x.DstPort), x.TransportFlow().Dst())
		}
	}
}

func c17Layers(c *vlib.Ctx) {
	n := c.Pick(20000, 300000)
	parserEth := &layers.Ethernet{}
	parserIP4, parserIP6 := &layers.IPv4{}, &layers.IPv6{}
	parserTCP, parserUDP := &layers.TCP{}, &layers.UDP{}
	parser := gopacket.NewDecodingLayerParser(layers.LayerTypeEthernet, parserEth, parserIP4, parserIP6, parserTCP, parserUDP)
	parser.IgnoreUnsupported = true
	chunk := 500
	for ci := 0; ci*chunk < n; ci++ {
		if !c.Begin(ci) {
			continue
		}
		r := c.Rand(uint64(ci))
		for k := 0; k < chunk; k++ {
			fc := c17BuildCase(r)
			opts := gopacket.DecodeOptions{Lazy: r.Bool(), NoCopy: r.Bool()}
			p := gopacket.NewPacket(fc.fwd, fc.first, opts)
			q := gopacket.NewPacket(fc.rev, fc.first, opts)
			ll, ql := p.LinkLayer(), q.LinkLayer()
			nl, qn := p.NetworkLayer(), q.NetworkLayer()
			tl, qt := p.TransportLayer(), q.TransportLayer()
			if ll == nil || nl == nil || ql == nil || qn == nil {
				c.Violation("E6-harness-packet-not-decoded:"+fc.name, "constructed packet did not decode to link+network layers", hex.EncodeToString(fc.fwd))
				continue
			}
			c17CheckFlow(c, "link", ll.LinkFlow(), fc.ltyp, fc.lsrc, fc.ldst, fc.fwd)
			if e, ok := ll.(*layers.Ethernet); ok {
				c17CheckFlow(c, "link-fields", e.LinkFlow(), layers.EndpointMAC, e.SrcMAC, e.DstMAC, fc.fwd)
			}
			switch x := nl.(type) {
			case *layers.IPv4:
				c17CheckFlow(c, "network-fields", x.NetworkFlow(), layers.EndpointIPv4, x.SrcIP, x.DstIP, fc.fwd)
			case *layers.IPv6:
				c17CheckFlow(c, "network-fields", x.NetworkFlow(), layers.EndpointIPv6, x.SrcIP, x.DstIP, fc.fwd)
			}
			c17CheckFlow(c, "network", nl.NetworkFlow(), fc.ntyp, fc.nsrc, fc.ndst, fc.fwd)
			c17Helpers(c, p, fc.fwd)
			pairs := [][2]gopacket.Flow{{ll.LinkFlow(), ql.LinkFlow()}, {nl.NetworkFlow(), qn.NetworkFlow()}}
			// RUDP and UDPLite are not TransportLayer-registered in every build: look the layer up by type as well
			var tf, qf gopacket.Flow
			havet := false
			if tl != nil && qt != nil {
				tf, qf, havet = tl.TransportFlow(), qt.TransportFlow(), true
			} else {
				for _, l := range p.Layers() {
					if x, ok := l.(interface{ TransportFlow() gopacket.Flow }); ok {
						tf, havet = x.TransportFlow(), true
					}
				}
				for _, l := range q.Layers() {
					if x, ok := l.(interface{ TransportFlow() gopacket.Flow }); ok {
						qf = x.TransportFlow()
					}
				}
			}
			if havet {
				c17CheckFlow(c, "transport", tf, fc.ttyp, fc.tsrc, fc.tdst, fc.fwd)
				pairs = append(pairs, [2]gopacket.Flow{tf, qf})
				c.CountIn("flow_layers", fc.name, 1)
			} else {
				c.CountIn("flow_layers_without_transport", fc.name, 1)
			}
			for _, pr := range pairs {
				if pr[1] != pr[0].Reverse() {
					c.Violation("E6-directions-not-mutually-reversed", fmt.Sprintf("flow of the reverse direction %v is not Reverse() of %v", pr[1], pr[0]), hex.EncodeToString(fc.fwd))
				}
				if pr[1].FastHash() != pr[0].FastHash() {
					c.Violation("E6-direction-hash", "two directions of one conversation hash differently", hex.EncodeToString(fc.fwd))
				}
			}
			// layers reused by a parser: the flow is that of the current packet
			if fc.ttyp == layers.EndpointTCPPort || fc.ttyp == layers.EndpointUDPPort {
				var dec []gopacket.LayerType
				for _, in := range [][]byte{fc.rev, fc.fwd} {
					parser.DecodeLayers(in, &dec)
				}
				if len(dec) >= 3 {
					c17CheckFlow(c, "reused-link", parserEth.LinkFlow(), fc.ltyp, fc.lsrc, fc.ldst, fc.fwd)
					if dec[1] == layers.LayerTypeIPv4 {
						c17CheckFlow(c, "reused-network", parserIP4.NetworkFlow(), fc.ntyp, fc.nsrc, fc.ndst, fc.fwd)
					} else {
						c17CheckFlow(c, "reused-network", parserIP6.NetworkFlow(), fc.ntyp, fc.nsrc, fc.ndst, fc.fwd)
					}
					if dec[2] == layers.LayerTypeTCP {
						c17CheckFlow(c, "reused-transport", parserTCP.TransportFlow(), fc.ttyp, fc.tsrc, fc.tdst, fc.fwd)
					} else if dec[2] == layers.LayerTypeUDP {
						c17CheckFlow(c, "reused-transport", parserUDP.TransportFlow(), fc.ttyp, fc.tsrc, fc.tdst, fc.fwd)
					}
					c.Count("reused_layer_flows", 1)
				} else {
					c.Violation("E6-parser-short", fmt.Sprintf("parser decoded only %v", dec), hex.EncodeToString(fc.fwd))
				}
			}
			// any layer object that is decoded into again (a caller-owned layer of whatever protocol): decode the reverse
			// packet, then the forward packet's bytes of the same layer into the same object - the flow must be the
			// forward packet's, whatever the object cached from the earlier one
			vlib.Guard(func() {
				pf := gopacket.NewPacket(fc.fwd, fc.first, gopacket.DecodeOptions{NoCopy: true, DecodeStreamsAsDatagrams: true})
				pr := gopacket.NewPacket(fc.rev, fc.first, gopacket.DecodeOptions{NoCopy: true, DecodeStreamsAsDatagrams: true})
				lf, lr := pf.Layers(), pr.Layers()
				for i := 0; i < len(lf) && i < len(lr); i++ {
					dl, ok := lr[i].(gopacket.DecodingLayer)
					if !ok || lf[i].LayerType() != lr[i].LayerType() || len(lf[i].LayerContents()) == 0 {
						continue
					}
					raw := append(append([]byte{}, lf[i].LayerContents()...), lf[i].LayerPayload()...)
					for round := 0; round < 3; round++ { // several times: state that accumulates shows late
						if dl.DecodeFromBytes(raw, gopacket.NilDecodeFeedback) != nil {
							return
						}
					}
					if x, ok := lr[i].(interface{ LinkFlow() gopacket.Flow }); ok && fc.link && i == 0 {
						c17CheckFlow(c, "redecoded-link", x.LinkFlow(), fc.ltyp, fc.lsrc, fc.ldst, fc.fwd)
					}
					if x, ok := lr[i].(interface{ NetworkFlow() gopacket.Flow }); ok && fc.net {
						c17CheckFlow(c, "redecoded-network", x.NetworkFlow(), fc.ntyp, fc.nsrc, fc.ndst, fc.fwd)
					}
					if x, ok := lr[i].(interface{ TransportFlow() gopacket.Flow }); ok && fc.tr {
						c17CheckFlow(c, "redecoded-transport", x.TransportFlow(), fc.ttyp, fc.tsrc, fc.tdst, fc.fwd)
					}
					c.Count("redecoded_layer_flows", 1)
				}
			})
			c.NonTrivial(vlib.HashBytes(fc.fwd))
			if k == 0 {
				c.Sample(map[string]any{"stack": fc.name, "bytes": hex.EncodeToString(fc.fwd), "network_flow": nl.NetworkFlow().String()})
			}
			c.Evals(1)
		}
		// link layers with their own address layout: FDDI, LinuxSLL, LinuxSLL2, PPP
		c17OtherLinks(c, r)
		c.End()
	}
}

func c17OtherLinks(c *vlib.Ctx, r *vlib.Rand) {
	macA, macB := r.Bytes(6), r.Bytes(6)
	// FDDI: FC(1) dst(6) src(6) then LLC
	fd := append([]byte{0x50}, append(append([]byte{}, macB...), macA...)...)
	fd = append(fd, 0xaa, 0xaa, 0x03, 0, 0, 0, 0x08, 0x00)
	p := gopacket.NewPacket(fd, layers.LayerTypeFDDI, gopacket.Default)
	if l, ok := p.Layer(layers.LayerTypeFDDI).(*layers.FDDI); ok {
		// the property ties the flow to the layer's own SrcMAC/DstMAC fields (gopacket's FDDI reads the address at offset 1 as
		// source; which of the two wire positions is "source" is the decoder's business, not C17's)
		c17CheckFlow(c, "fddi", l.LinkFlow(), layers.EndpointMAC, l.SrcMAC, l.DstMAC, fd)
		if !(bytes.Equal(l.SrcMAC, macA) && bytes.Equal(l.DstMAC, macB)) && !(bytes.Equal(l.SrcMAC, macB) && bytes.Equal(l.DstMAC, macA)) {
			c.Violation("E6-flow-addresses:fddi-fields", "FDDI SrcMAC/DstMAC are not the two addresses on the wire", hex.EncodeToString(fd))
		}
		c.CountIn("flow_layers", "fddi", 1)
	}
	// LinuxSLL: type(2) arphrd(2) alen(2) addr(8) proto(2)
	alen := r.Intn(9)
	if r.Chance(1, 3) {
		alen = []int{9, 15, 16, 17, 20, 255, 256, 65535}[r.Intn(8)] // a declared length beyond the 8 address bytes the header holds
	}
	sll := make([]byte, 16)
	sll[4], sll[5] = byte(alen>>8), byte(alen)
	addr := r.Bytes(8)
	copy(sll[6:14], addr)
	sll[14], sll[15] = 0x08, 0x00
	sll = append(sll, r.Bytes(r.Intn(40))...) // whatever follows the header is not an address
	p = gopacket.NewPacket(sll, layers.LayerTypeLinuxSLL, gopacket.Default)
	if l, ok := p.Layer(layers.LayerTypeLinuxSLL).(*layers.LinuxSLL); ok {
		var f gopacket.Flow
		if pi := vlib.Guard(func() { f = l.LinkFlow() }); pi != nil {
			c.Violation("E6-flow-panics:linuxsll", fmt.Sprintf("LinkFlow of a decoded SLL header (declared address length %d) panicked: %s", alen, pi.Value), hex.EncodeToString(sll))
			return
		}
		want := []byte(l.Addr) // the property ties the flow to the layer's own address field
		if len(want) > gopacket.MaxEndpointSize {
			want = want[:gopacket.MaxEndpointSize]
		}
		if !bytes.Equal(f.Src().Raw(), want) {
			c.Violation("E6-flow-addresses:linuxsll-field", fmt.Sprintf("SLL flow src %x != the layer's Addr %x (declared length %d)", f.Src().Raw(), want, alen), hex.EncodeToString(sll))
		}
		if alen <= 8 && !bytes.Equal(f.Src().Raw(), addr[:alen]) {
			c.Violation("E6-flow-addresses:linuxsll", fmt.Sprintf("SLL flow src %x != address on the wire %x", f.Src().Raw(), addr[:alen]), hex.EncodeToString(sll))
		}
		if f.Reverse().FastHash() != f.FastHash() || f.Reverse().Reverse() != f {
			c.Violation("E5-flow-hash-symmetric", "SLL flow hash/reverse", nil)
		}
		c.CountIn("flow_layers", "linuxsll", 1)
	}
	// PPP constant flow
	pp := []byte{0x00, 0x21, 0x45}
	p = gopacket.NewPacket(pp, layers.LayerTypePPP, gopacket.Default)
	if l, ok := p.Layer(layers.LayerTypePPP).(*layers.PPP); ok {
		f := l.LinkFlow()
		if f.Reverse().FastHash() != f.FastHash() || f.Reverse().Reverse() != f {
			c.Violation("E5-flow-hash-symmetric", "PPP flow hash/reverse", nil)
		}
		if g, err := gopacket.FlowFromEndpoints(f.Endpoints()); err != nil || g != f {
			c.Violation("E3-join-split", "PPP flow split/join", nil)
		}
		c.CountIn("flow_layers", "ppp", 1)
	}
}
