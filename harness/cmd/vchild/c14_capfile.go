package main

import (
	"bytes"
	"encoding/binary"
	"errors"
	"fmt"
	"io"
	"reflect"
	"strings"

	"github.com/gopacket/gopacket"
	"github.com/gopacket/gopacket/pcapgo"

	"verif/harness/internal/capgen"
	"verif/harness/internal/vlib"
)

func init() {
	vlib.Register("C14", "roundtrip", c14Roundtrip)
	vlib.Register("C14", "truncate", c14Truncate)
}

// readRec is one packet as a reader returned it (data copied).
type readRec struct {
	data []byte
	ci   gopacket.CaptureInfo
	opts pcapgo.NgPacketOptions
}

const (
	apiCopy = iota
	apiOpts
	apiZero
)

var apiNames = []string{"ReadPacketData", "ReadPacketDataWithOptions", "ZeroCopyReadPacketData"}

// c14ReadAll reads stream b with the given API until the first error. ctorErr is the constructor's error.
func c14ReadAll(f *capgen.File, b []byte, api int) (recs []readRec, final error, ctor bool, rd any, pi *vlib.PanicInfo) {
	pi = vlib.Guard(func() {
		if f.Kind == capgen.Ng {
			r, err := pcapgo.NewNgReader(bytes.NewReader(b), pcapgo.NgReaderOptions{WantMixedLinkType: f.Mixed})
			if err != nil {
				final, ctor = err, true
				return
			}
			rd = r
			for i := 0; i < 100000; i++ {
				var d []byte
				var ci gopacket.CaptureInfo
				var o pcapgo.NgPacketOptions
				switch api {
				case apiCopy:
					d, ci, err = r.ReadPacketData()
				case apiOpts:
					d, ci, o, err = r.ReadPacketDataWithOptions()
				default:
					d, ci, err = r.ZeroCopyReadPacketData()
				}
				if err != nil {
					final = err
					return
				}
				// a zero-copy read hands out reader-owned memory (data and ancillary slice) that is only valid until the next
				// call; what a copying read returns belongs to the caller and is kept as returned until every packet has
				// been read - a copying call that hands out reader-owned memory shows up as an altered earlier packet
				if api == apiZero {
					ci.AncillaryData = append([]interface{}{}, ci.AncillaryData...)
					d = append([]byte{}, d...)
				}
				recs = append(recs, readRec{d, ci, o})
			}
			return
		}
		r, err := pcapgo.NewReader(bytes.NewReader(b))
		if err != nil {
			final, ctor = err, true
			return
		}
		rd = r
		for i := 0; i < 100000; i++ {
			var d []byte
			var ci gopacket.CaptureInfo
			if api == apiZero {
				d, ci, err = r.ZeroCopyReadPacketData()
			} else {
				d, ci, err = r.ReadPacketData()
			}
			if err != nil {
				final = err
				return
			}
			if api == apiZero {
				d = append([]byte{}, d...)
			}
			recs = append(recs, readRec{d, ci, pcapgo.NgPacketOptions{}})
		}
	})
	return
}

func eofClass(err error) bool {
	return errors.Is(err, io.EOF) || errors.Is(err, io.ErrUnexpectedEOF)
}

// c14ComparePkt compares what was written with what was read; "" when equal.
func c14ComparePkt(f *capgen.File, w capgen.Pkt, g readRec, api int) (key, desc string) {
	if !bytes.Equal(w.Data, g.data) {
		return "data-differs", fmt.Sprintf("read %d bytes, wrote %d", len(g.data), len(w.Data))
	}
	if g.ci.CaptureLength != w.CI.CaptureLength || g.ci.Length != w.CI.Length {
		return "lengths-differ", fmt.Sprintf("read caplen/len %d/%d, wrote %d/%d", g.ci.CaptureLength, g.ci.Length, w.CI.CaptureLength, w.CI.Length)
	}
	want := w.CI.Timestamp
	if f.Kind == capgen.ClassicMicro {
		want = want.Truncate(1000) // file resolution: microseconds
	}
	if !g.ci.Timestamp.Equal(want) {
		k := "timestamp-differs"
		if f.Kind == capgen.Ng && f.Ifaces[w.CI.InterfaceIndex].TimestampOffset != 0 {
			k += ":interface-with-tsoffset"
		}
		return k, fmt.Sprintf("read %v, wrote %v (file resolution applied)", g.ci.Timestamp.UnixNano(), want.UnixNano())
	}
	if f.Kind == capgen.Ng {
		if g.ci.InterfaceIndex != w.CI.InterfaceIndex {
			return "interface-differs", fmt.Sprintf("read interface %d, wrote %d", g.ci.InterfaceIndex, w.CI.InterfaceIndex)
		}
		if f.Mixed {
			if len(g.ci.AncillaryData) != 1 || g.ci.AncillaryData[0] != f.Ifaces[w.CI.InterfaceIndex].LinkType {
				return "linktype-differs", fmt.Sprintf("ancillary link type %v, interface has %v", g.ci.AncillaryData, f.Ifaces[w.CI.InterfaceIndex].LinkType)
			}
		}
		if api == apiOpts {
			if k, d := c14CompareOpts(w.Opts, g.opts); k != "" {
				return k, d
			}
		}
	}
	return "", ""
}

func c14CompareOpts(w, g pcapgo.NgPacketOptions) (string, string) {
	if len(w.Comments) != len(g.Comments) {
		return "options-differ:comments", fmt.Sprintf("wrote %d comments, read %d", len(w.Comments), len(g.Comments))
	}
	for i := range w.Comments {
		if w.Comments[i] != g.Comments[i] {
			k := "options-differ:comments"
			if w.Comments[i] == "" {
				k += ":empty-string"
			}
			return k, fmt.Sprintf("comment %d: wrote %q, read %q", i, w.Comments[i], g.Comments[i])
		}
	}
	if (w.Flags == nil) != (g.Flags == nil) || (w.Flags != nil && w.Flags.ToUint32() != g.Flags.ToUint32()) {
		return "options-differ:flags", fmt.Sprintf("wrote %+v read %+v", w.Flags, g.Flags)
	}
	if len(w.Hashes) != len(g.Hashes) {
		return "options-differ:hashes", "count"
	}
	for i := range w.Hashes {
		if w.Hashes[i].Algorithm != g.Hashes[i].Algorithm || !bytes.Equal(w.Hashes[i].Hash, g.Hashes[i].Hash) {
			return "options-differ:hashes", fmt.Sprintf("hash %d: wrote %+v read %+v", i, w.Hashes[i], g.Hashes[i])
		}
	}
	p64 := func(a, b *uint64) bool { return (a == nil) == (b == nil) && (a == nil || *a == *b) }
	if !p64(w.DropCount, g.DropCount) {
		return "options-differ:dropcount", ""
	}
	if !p64(w.PacketID, g.PacketID) {
		return "options-differ:packetid", ""
	}
	if (w.Queue == nil) != (g.Queue == nil) || (w.Queue != nil && *w.Queue != *g.Queue) {
		return "options-differ:queue", ""
	}
	if len(w.Verdicts) != len(g.Verdicts) {
		return "options-differ:verdicts", "count"
	}
	for i := range w.Verdicts {
		if w.Verdicts[i].Type != g.Verdicts[i].Type || !bytes.Equal(w.Verdicts[i].Data, g.Verdicts[i].Data) {
			return "options-differ:verdicts", fmt.Sprintf("verdict %d differs", i)
		}
	}
	return "", ""
}

func c14Detail(f *capgen.File, extra string) map[string]any {
	b := f.Bytes
	if len(b) > 3000 {
		b = b[:3000]
	}
	return map[string]any{"kind": f.Kind.String(), "packets": len(f.Pkts), "file_len": len(f.Bytes), "file_hex_prefix": fmt.Sprintf("%x", b), "snaplen": f.Snaplen, "features": fmt.Sprint(f.Features), "note": extra}
}

func c14CheckMeta(c *vlib.Ctx, f *capgen.File, rd any) {
	switch r := rd.(type) {
	case *pcapgo.Reader:
		if r.LinkType() != f.LinkType {
			c.Violation("linktype-differs:"+f.Kind.String(), fmt.Sprintf("file header link type read %v, written %v", r.LinkType(), f.LinkType), c14Detail(f, ""))
		}
		if r.Snaplen() != f.Snaplen {
			c.Violation("snaplen-differs:"+f.Kind.String(), fmt.Sprintf("snaplen read %d, written %d", r.Snaplen(), f.Snaplen), c14Detail(f, ""))
		}
	case *pcapgo.NgReader:
		if r.SectionInfo() != f.Section {
			c.Violation("section-info-differs", fmt.Sprintf("read %+v wrote %+v", r.SectionInfo(), f.Section), c14Detail(f, ""))
		}
		if !f.Mixed && r.LinkType() != f.LinkType {
			c.Violation("linktype-differs:pcapng", fmt.Sprintf("read %v wrote %v", r.LinkType(), f.LinkType), c14Detail(f, ""))
		}
		// interfaces added after the last packet have not been seen by the reader yet
		seen := 0
		for i := range f.Ifaces {
			if f.IfaceAt[i] < len(f.Pkts) || i == 0 {
				seen = i + 1
			}
		}
		if r.NInterfaces() < seen {
			c.Violation("interfaces-missing", fmt.Sprintf("reader knows %d interfaces, %d were written before the last packet", r.NInterfaces(), seen), c14Detail(f, ""))
			return
		}
		for i := 0; i < seen; i++ {
			g, err := r.Interface(i)
			if err != nil {
				c.Violation("interfaces-missing", err.Error(), c14Detail(f, ""))
				continue
			}
			w := f.Ifaces[i]
			if g.Name != w.Name || g.Comment != w.Comment || g.Description != w.Description || g.Filter != w.Filter || g.OS != w.OS || g.LinkType != w.LinkType || g.SnapLength != w.SnapLength || g.TimestampOffset != w.TimestampOffset || g.TimestampResolution != 9 {
				c.Violation("interface-description-differs", fmt.Sprintf("interface %d: read {%q %q %q %q %q %v snap=%d off=%d res=%d} wrote {%q %q %q %q %q %v snap=%d off=%d}", i, g.Name, g.Comment, g.Description, g.Filter, g.OS, g.LinkType, g.SnapLength, g.TimestampOffset, g.TimestampResolution, w.Name, w.Comment, w.Description, w.Filter, w.OS, w.LinkType, w.SnapLength, w.TimestampOffset), c14Detail(f, ""))
			}
		}
	}
}

func c14Roundtrip(c *vlib.Ctx) {
	n := c.Pick(4000, 60000)
	for i := 0; i < n; i++ {
		if !c.Begin(i) {
			continue
		}
		r := c.Rand(uint64(i))
		f := capgen.Gen(r, false)
		if f.WriteErr != "" {
			c.Violation("writer-error:"+f.Kind.String(), "writer refused an in-range packet sequence: "+f.WriteErr, c14Detail(f, ""))
			c.End()
			continue
		}
		if f.Kind == capgen.Ng {
			// independent structural check: the blocks tile the file and every block ends with its own length again
			if msg := c14NgStructure(f.Bytes); msg != "" {
				c.Violation("block-structure:pcapng", "the written file is not a well-formed sequence of pcapng blocks: "+msg, c14Detail(f, ""))
			}
			c.Count("pcapng_files_structure_checked", 1)
		}
		for api := 0; api < 3; api++ {
			if f.Kind != capgen.Ng && api == apiOpts {
				continue
			}
			recs, final, ctor, rd, pi := c14ReadAll(f, f.Bytes, api)
			tag := f.Kind.String()
			if pi != nil {
				c.Violation(pi.Key, "reader panicked on a file written by the library's own writer: "+pi.Value, c14Detail(f, apiNames[api]))
				continue
			}
			if ctor {
				c.Violation("reader-rejects-written-file:"+tag, "constructor error on a flushed file: "+final.Error(), c14Detail(f, apiNames[api]))
				continue
			}
			for k := 0; k < len(f.Pkts) && k < len(recs); k++ {
				if key, desc := c14ComparePkt(f, f.Pkts[k], recs[k], api); key != "" {
					c.Violation(key+":"+tag, fmt.Sprintf("packet %d via %s: %s", k, apiNames[api], desc), c14Detail(f, ""))
					break
				}
			}
			if len(recs) != len(f.Pkts) {
				key := "packet-count-differs:" + tag
				if f.Features["snaplen0"] {
					key += ":snaplen-0"
				}
				c.Violation(key, fmt.Sprintf("%s returned %d packets then %v; %d were written", apiNames[api], len(recs), final, len(f.Pkts)), c14Detail(f, ""))
			} else if !errors.Is(final, io.EOF) {
				c.Violation("no-clean-eof:"+tag, fmt.Sprintf("after all %d packets %s returned %v instead of io.EOF", len(recs), apiNames[api], final), c14Detail(f, ""))
			}
			if api == 0 {
				c14CheckMeta(c, f, rd)
				if f.HasStats {
					if ng, ok := rd.(*pcapgo.NgReader); ok {
						for id, st := range f.Stats {
							// statistics blocks written after the last packet are only seen when reading on
							if id < ng.NInterfaces() {
								g, _ := ng.Interface(id)
								if g.Statistics.PacketsReceived == st.PacketsReceived && g.Statistics.PacketsDropped == st.PacketsDropped && !reflect.DeepEqual(g.Statistics.LastUpdate, st.LastUpdate) && f.Ifaces[id].TimestampOffset == 0 {
									c.Violation("interface-statistics-differ", fmt.Sprintf("interface %d LastUpdate read %v wrote %v", id, g.Statistics.LastUpdate, st.LastUpdate), c14Detail(f, ""))
								}
							}
						}
					}
				}
			}
			c.Count("roundtrip_reads_"+tag, 1)
		}
		// two captures appended into one stream (cat a.pcapng b.pcapng): every section has its own interfaces, the packets of
		// the second must be read against the second's
		if f.Kind == capgen.Ng && i%4 == 0 {
			g := capgen.NgFile(c.Rand(uint64(i), 2), true, false)
			if g.WriteErr == "" {
				both := &capgen.File{Kind: capgen.Ng, Bytes: append(append([]byte{}, f.Bytes...), g.Bytes...), Mixed: true}
				for api := 0; api < 3; api++ {
					recs, final, ctor, _, pi := c14ReadAll(both, both.Bytes, api)
					if pi != nil {
						c.Violation(pi.Key, "reader panicked on two appended captures: "+pi.Value, c14Detail(f, apiNames[api]))
						break
					}
					if ctor {
						break
					}
					fm, gm := *f, *g
					fm.Mixed, gm.Mixed = true, true
					bad := false
					for k := 0; k < len(recs) && k < len(f.Pkts)+len(g.Pkts) && !bad; k++ {
						src, w := &fm, capgen.Pkt{}
						if k < len(f.Pkts) {
							w = f.Pkts[k]
						} else {
							src, w = &gm, g.Pkts[k-len(f.Pkts)]
						}
						if key, desc := c14ComparePkt(src, w, recs[k], api); key != "" {
							sec := map[bool]string{true: "first", false: "second"}[k < len(f.Pkts)]
							suffix := ":two-sections"
							if strings.HasPrefix(key, "timestamp-differs:interface-with-tsoffset") {
								suffix = ":pcapng" // the listed if_tsoffset defect, whichever section the interface is in
							}
							c.Violation(key+suffix, fmt.Sprintf("packet %d (%s section) of two appended captures via %s: %s", k, sec, apiNames[api], desc), c14Detail(g, ""))
							bad = true
						}
					}
					if !bad && (len(recs) != len(f.Pkts)+len(g.Pkts) || !errors.Is(final, io.EOF)) {
						c.Violation("packet-count-differs:two-sections", fmt.Sprintf("%s returned %d packets then %v; %d+%d were written", apiNames[api], len(recs), final, len(f.Pkts), len(g.Pkts)), c14Detail(g, ""))
					}
					c.Count("two_section_streams_read", 1)
				}
			}
		}
		for ft := range f.Features {
			c.Count("files_with_"+ft, 1)
		}
		if len(f.Pkts) >= 3 && (f.Features["packet-options"] || f.Features["unaligned-length"]) {
			c.NonTrivial(vlib.HashBytes(f.Bytes))
		}
		if c.WantSample() && len(f.Pkts) >= 2 {
			c.Sample(map[string]any{"kind": f.Kind.String(), "packets": len(f.Pkts), "bytes": len(f.Bytes), "features": fmt.Sprint(f.Features)})
		}
		c.End()
	}
}

// c14Truncate: every byte offset of every generated file, every read API.
func c14Truncate(c *vlib.Ctx) {
	n := c.Pick(160, 3200)
	for i := 0; i < n; i++ {
		if !c.Begin(i) {
			continue
		}
		r := c.Rand(uint64(i))
		f := capgen.Gen(r, true)
		if f.WriteErr != "" || len(f.Bytes) > 6144 {
			c.End()
			continue
		}
		for api := 0; api < 3; api++ {
			if f.Kind != capgen.Ng && api == apiOpts {
				continue
			}
			full, _, ctor, _, pi := c14ReadAll(f, f.Bytes, api)
			if pi != nil || ctor || len(full) != len(f.Pkts) {
				continue // the round trip itself is broken for this file: reported by the roundtrip phase
			}
			tag := f.Kind.String()
			bad := false
			for k := 0; k <= len(f.Bytes) && !bad; k++ {
				recs, final, isCtor, _, pi := c14ReadAll(f, f.Bytes[:k], api)
				c.Evals(1)
				want := 0
				for _, p := range f.Pkts {
					if p.End <= k {
						want++
					}
				}
				det := func() map[string]any {
					return c14Detail(f, fmt.Sprintf("cut at offset %d of %d via %s", k, len(f.Bytes), apiNames[api]))
				}
				switch {
				case pi != nil:
					c.Violation(pi.Key, fmt.Sprintf("reader panicked on a file cut at offset %d: %s", k, pi.Value), det())
					bad = true
				case len(recs) > want:
					c.Violation("truncated-file-yields-extra-packet:"+tag, fmt.Sprintf("cut at %d: %d packets returned, only %d are wholly contained", k, len(recs), want), det())
					bad = true
				case len(recs) < want:
					c.Violation("truncated-file-omits-packet:"+tag, fmt.Sprintf("cut at %d: %d packets returned (then %v), %d are wholly contained", k, len(recs), final, want), det())
					bad = true
				case !eofClass(final):
					where := "read"
					if isCtor {
						where = "constructor"
					}
					c.Violation("truncated-file-error-class:"+tag+":"+where, fmt.Sprintf("cut at %d: %s ends with %q, not an end-of-file / unexpected-end error", k, where, final), det())
					bad = true
				default:
					for j := range recs {
						if !bytes.Equal(recs[j].data, full[j].data) || recs[j].ci.CaptureLength != full[j].ci.CaptureLength || recs[j].ci.Length != full[j].ci.Length || !recs[j].ci.Timestamp.Equal(full[j].ci.Timestamp) || recs[j].ci.InterfaceIndex != full[j].ci.InterfaceIndex || !reflect.DeepEqual(recs[j].opts, full[j].opts) {
							c.Violation("truncated-file-alters-packet:"+tag, fmt.Sprintf("cut at %d: packet %d differs from the full-file read", k, j), det())
							bad = true
							break
						}
					}
				}
			}
			c.Count("truncation_offsets_enumerated", len(f.Bytes)+1)
		}
		c.Count("files_truncated_at_every_offset", 1)
		if len(f.Pkts) >= 3 && (f.Features["packet-options"] || f.Features["unaligned-length"]) {
			c.NonTrivial(vlib.HashBytes(f.Bytes))
		}
		if c.WantSample() && len(f.Pkts) >= 2 {
			c.Sample(map[string]any{"kind": f.Kind.String(), "packets": len(f.Pkts), "bytes": len(f.Bytes), "offsets": len(f.Bytes) + 1, "packet_end_offsets": func() []int {
				var e []int
				for _, p := range f.Pkts {
					e = append(e, p.End)
				}
				return e
			}()})
		}
		c.End()
	}
}

// c14NgStructure walks a little-endian pcapng file block by block.
func c14NgStructure(b []byte) string {
	off := 0
	for off < len(b) {
		if off+12 > len(b) {
			return fmt.Sprintf("%d stray bytes at offset %d", len(b)-off, off)
		}
		bl := int(binary.LittleEndian.Uint32(b[off+4:]))
		if bl < 12 || bl%4 != 0 || off+bl > len(b) {
			return fmt.Sprintf("block at offset %d announces total length %d (file has %d bytes left)", off, bl, len(b)-off)
		}
		if tr := int(binary.LittleEndian.Uint32(b[off+bl-4:])); tr != bl {
			return fmt.Sprintf("block at offset %d: total length is %d in the block header but %d in the block trailer", off, bl, tr)
		}
		off += bl
	}
	return ""
}
