package main

import (
	"errors"
	"fmt"

	"github.com/gopacket/gopacket"

	"verif/harness/internal/vlib"
)

// A layer type registered by the harness whose decoder is scripted by the input bytes: every step takes an opcode and a
// length byte and then uses the PacketBuilder the way a decoder may (add one or two layers, claim the link / network /
// transport / application slot, mark truncation, hand over to itself, to the payload decoder or to a nil decoder, return
// an error before or after adding its layer, panic, stop). The library's own decoders use only part of that protocol;
// lazy and eager packet building must agree on all of it, and the error-layer bookkeeping must hold for all of it.

var layerTypeScripted gopacket.LayerType
var layerTypeScriptedB gopacket.LayerType

func init() {
	layerTypeScripted = gopacket.RegisterLayerType(1900, gopacket.LayerTypeMetadata{Name: "VerifScripted", Decoder: gopacket.DecodeFunc(decodeScripted)})
	layerTypeScriptedB = gopacket.RegisterLayerType(1901, gopacket.LayerTypeMetadata{Name: "VerifScriptedB", Decoder: gopacket.DecodeFunc(decodeScripted)})
	vlib.Register("C03", "scripted", c03Scripted)
	vlib.Register("C01", "scripted", c01Scripted)
}

type scriptedLayer struct {
	T        gopacket.LayerType
	Op, N    byte
	contents []byte
	payload  []byte
}

func (l *scriptedLayer) LayerType() gopacket.LayerType { return l.T }
func (l *scriptedLayer) LayerContents() []byte         { return l.contents }
func (l *scriptedLayer) LayerPayload() []byte          { return l.payload }
func (l *scriptedLayer) Payload() []byte               { return l.payload }
func (l *scriptedLayer) LinkFlow() gopacket.Flow       { return gopacket.Flow{} }
func (l *scriptedLayer) NetworkFlow() gopacket.Flow    { return gopacket.Flow{} }
func (l *scriptedLayer) TransportFlow() gopacket.Flow  { return gopacket.Flow{} }

// scriptedOps is the number of opcodes in use: 15 for the lazy/eager comparison (C03), 17 for the bookkeeping oracle (C01).
// Opcodes 15 and 16 - a decoder that names its next decoder and fails afterwards - are within the PacketBuilder contract,
// but an eager packet has run the next decoder by then and a lazy one never will: a difference by design, outside C03.
var scriptedOps = 15

func decodeScripted(data []byte, p gopacket.PacketBuilder) error {
	if len(data) < 2 {
		return errors.New("scripted: short step")
	}
	op, n := data[0]%byte(scriptedOps), int(data[1]%4)
	if 2+n > len(data) {
		p.SetTruncated()
		n = len(data) - 2
	}
	mk := func(t gopacket.LayerType, from, to int) *scriptedLayer {
		return &scriptedLayer{T: t, Op: op, N: byte(n), contents: data[from:to], payload: data[to:]}
	}
	l := mk(layerTypeScripted, 0, 2+n)
	self := gopacket.DecodeFunc(decodeScripted)
	switch op {
	case 0:
		p.AddLayer(l)
		return p.NextDecoder(self)
	case 1:
		p.AddLayer(l)
		return p.NextDecoder(gopacket.LayerTypePayload)
	case 2:
		p.AddLayer(l)
		return p.NextDecoder(nil)
	case 3:
		p.AddLayer(l)
		return errors.New("scripted: error after adding the layer")
	case 4:
		return errors.New("scripted: error before adding a layer")
	case 5:
		p.AddLayer(l)
		p.SetTruncated()
		return p.NextDecoder(self)
	case 6:
		p.AddLayer(l)
		p.SetLinkLayer(l)
		return p.NextDecoder(self)
	case 7:
		p.AddLayer(l)
		p.SetNetworkLayer(l)
		return p.NextDecoder(self)
	case 8:
		p.AddLayer(l)
		p.SetTransportLayer(l)
		return p.NextDecoder(self)
	case 9:
		p.AddLayer(l)
		p.SetApplicationLayer(l)
		return p.NextDecoder(self)
	case 10: // two layers in one step
		a := mk(layerTypeScripted, 0, 1)
		a.payload = data[1:]
		b := mk(layerTypeScriptedB, 1, 2+n)
		p.AddLayer(a)
		p.AddLayer(b)
		return p.NextDecoder(self)
	case 11:
		p.AddLayer(l)
		panic("scripted: decoder panics after adding its layer")
	case 12: // the layer swallows everything: empty payload
		all := mk(layerTypeScripted, 0, len(data))
		p.AddLayer(all)
		if n&1 == 0 {
			return p.NextDecoder(self)
		}
		return p.NextDecoder(nil)
	case 13:
		p.AddLayer(l)
		return p.NextDecoder(layerTypeScriptedB) // by layer type: looked up in the registry
	case 15: // names the next decoder successfully and fails afterwards
		p.AddLayer(l)
		if err := p.NextDecoder(gopacket.LayerTypePayload); err != nil {
			return err
		}
		return errors.New("scripted: error after NextDecoder succeeded")
	case 16: // the same, failing by panic
		p.AddLayer(l)
		if err := p.NextDecoder(self); err != nil {
			return err
		}
		panic("scripted: decoder panics after NextDecoder succeeded")
	}
	p.AddLayer(l)
	return nil // stops without naming a next decoder
}

// scriptedInputs enumerates every script of up to maxSteps steps (opcode x length 0/1) and adds PRNG scripts.
func scriptedInputs(r *vlib.Rand, maxSteps, random int) [][]byte {
	var out [][]byte
	var rec func(prefix []byte, steps int)
	rec = func(prefix []byte, steps int) {
		if len(prefix) > 0 {
			out = append(out, append([]byte{}, prefix...))
			out = append(out, append(append([]byte{}, prefix...), 0x77)) // a trailing odd byte: a short last step
		}
		if steps == 0 {
			return
		}
		for op := 0; op < scriptedOps; op++ {
			for n := 0; n < 2; n++ {
				p := append(append([]byte{}, prefix...), byte(op), byte(n))
				for k := 0; k < n; k++ {
					p = append(p, 0xee)
				}
				rec(p, steps-1)
			}
		}
	}
	rec(nil, maxSteps)
	for i := 0; i < random; i++ {
		b := r.Bytes(r.Range(2, 40))
		for j := 0; j+1 < len(b); j += 2 {
			b[j] = byte(r.Intn(scriptedOps))
			b[j+1] = byte(r.Intn(4))
		}
		out = append(out, b)
	}
	return out
}

func c03Scripted(c *vlib.Ctx) {
	r := c.Rand(31)
	ins := scriptedInputs(r, c.Pick(3, 4), c.Pick(4000, 100000))
	chunk := 500
	for k := 0; k*chunk < len(ins); k++ {
		if k%c.NBatch != c.Batch || !c.Begin(k) {
			continue
		}
		rr := c.Rand(uint64(k), 32)
		for _, b := range ins[k*chunk : min(len(ins), (k+1)*chunk)] {
			c03Prefix(c, rr, layerTypeScripted, b)
			c.Count("scripted_decoder_inputs", 1)
		}
		c.End()
	}
}

func c01Scripted(c *vlib.Ctx) {
	scriptedOps = 17
	r := c.Rand(33)
	ins := scriptedInputs(r, c.Pick(3, 4), c.Pick(4000, 100000))
	chunk := 500
	for k := 0; k*chunk < len(ins); k++ {
		if k%c.NBatch != c.Batch || !c.Begin(k) {
			continue
		}
		rr := c.Rand(uint64(k), 34)
		for _, b := range ins[k*chunk : min(len(ins), (k+1)*chunk)] {
			c01One(c, rr, layerTypeScripted, b, "scripted")
			c.Count("scripted_decoder_inputs", 1)
		}
		c.End()
	}
	_ = fmt.Sprint
}
