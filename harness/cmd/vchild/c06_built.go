package main

import (
	"bytes"
	"fmt"
	"net"
	"strings"

	"github.com/gopacket/gopacket"
	"github.com/gopacket/gopacket/layers"

	"verif/harness/internal/sig"
	"verif/harness/internal/vlib"
)

func init() {
	vlib.Register("C06", "built", c06Built)
}

// ---- C06 built: stacks of the core protocols built from in-range field values -----------------------------------------------

var builtSizes = []int{0, 1, 2, 3, 17, 45, 46, 47, 255, 1471, 1472, 1473, 9001, 65000}

func rIP4(r *vlib.Rand) net.IP { return net.IP(r.Bytes(4)) }
func rIP6(r *vlib.Rand) net.IP { b := r.Bytes(16); b[0] = 0x20; return net.IP(b) }
func rMAC(r *vlib.Rand) net.HardwareAddr {
	b := r.Bytes(6)
	b[0] &^= 1
	return net.HardwareAddr(b)
}

func rName(r *vlib.Rand) []byte {
	var parts []string
	for n := r.Range(1, 4); n > 0; n-- {
		l := r.Range(1, 12)
		s := make([]byte, l)
		for i := range s {
			s[i] = "abcdefghijklmnopqrstuvwxyz0123456789-"[r.Intn(37)]
		}
		parts = append(parts, string(s))
	}
	return []byte(strings.Join(parts, "."))
}

// builtTCPOptions returns an option list whose encoded size is a multiple of 4 (explicit NOPs, as real stacks send).
func builtTCPOptions(r *vlib.Rand) []layers.TCPOption {
	var out []layers.TCPOption
	size := 0
	add := func(k layers.TCPOptionKind, data []byte) {
		if size+2+len(data) > 40 {
			return
		}
		out = append(out, layers.TCPOption{OptionType: k, OptionLength: uint8(2 + len(data)), OptionData: data})
		size += 2 + len(data)
	}
	for n := r.Intn(5); n > 0; n-- {
		switch r.Intn(6) {
		case 0:
			add(layers.TCPOptionKindMSS, r.Bytes(2))
		case 1:
			add(layers.TCPOptionKindWindowScale, []byte{byte(r.Intn(15))})
		case 2:
			add(layers.TCPOptionKindSACKPermitted, nil)
		case 3:
			add(layers.TCPOptionKindTimestamps, r.Bytes(8))
		case 4:
			add(layers.TCPOptionKindSACK, r.Bytes(8*r.Range(1, 3)))
		default:
			add(layers.TCPOptionKind(r.Range(35, 250)), r.Bytes(r.Intn(9)))
		}
	}
	for size%4 != 0 && size < 40 {
		out = append(out, layers.TCPOption{OptionType: layers.TCPOptionKindNop, OptionLength: 1})
		size++
	}
	return out
}

func builtIPv4Options(r *vlib.Rand) []layers.IPv4Option {
	var out []layers.IPv4Option
	size := 0
	for n := r.Intn(4); n > 0; n-- {
		var o layers.IPv4Option
		switch r.Intn(3) {
		case 0:
			o = layers.IPv4Option{OptionType: 148, OptionLength: 4, OptionData: r.Bytes(2)} // router alert
		case 1:
			k := r.Range(1, 3)
			o = layers.IPv4Option{OptionType: 7, OptionLength: uint8(3 + 4*k), OptionData: r.Bytes(1 + 4*k)} // record route
		default:
			k := r.Range(1, 4)
			o = layers.IPv4Option{OptionType: uint8(r.Range(130, 250)), OptionLength: uint8(2 + k), OptionData: r.Bytes(k)}
		}
		if size+int(o.OptionLength) > 40 {
			break
		}
		out = append(out, o)
		size += int(o.OptionLength)
	}
	for size%4 != 0 {
		out = append(out, layers.IPv4Option{OptionType: 1, OptionLength: 1})
		size++
	}
	return out
}

func builtTLVs(r *vlib.Rand) (hbh []*layers.IPv6HopByHopOption, dst []*layers.IPv6DestinationOption) {
	if r.Chance(1, 5) {
		// long headers: the length field counts 8-byte units in 8 bits, so headers of 248..2048 bytes exist; totals are
		// placed around 256 bytes (one option of 240..255 data bytes, or several) and anywhere up to the maximum
		lens := func() []int {
			switch r.Intn(3) {
			case 0:
				return []int{r.Range(236, 255)}
			case 1:
				return []int{r.Range(100, 130), r.Range(100, 130), r.Intn(14)}
			}
			var out []int
			for total := 0; total < r.Range(300, 2000); {
				l := r.Intn(256)
				out = append(out, l)
				total += l + 2
			}
			for sum(out)+2*len(out) > 2030 {
				out = out[1:]
			}
			return out
		}
		for _, l := range lens() {
			hbh = append(hbh, &layers.IPv6HopByHopOption{OptionType: uint8(r.Range(2, 60)), OptionLength: uint8(l), ActualLength: l + 2, OptionData: r.Bytes(l)})
		}
		for _, l := range lens() {
			dst = append(dst, &layers.IPv6DestinationOption{OptionType: uint8(r.Range(2, 60)), OptionLength: uint8(l), ActualLength: l + 2, OptionData: r.Bytes(l)})
		}
		return
	}
	for n := r.Range(1, 4); n > 0; n-- {
		l := r.Intn(14) // all residues of the total length mod 8 come up
		hbh = append(hbh, &layers.IPv6HopByHopOption{OptionType: uint8(r.Range(2, 60)), OptionLength: uint8(l), ActualLength: l + 2, OptionData: r.Bytes(l)})
	}
	for n := r.Range(1, 4); n > 0; n-- {
		l := r.Intn(14)
		dst = append(dst, &layers.IPv6DestinationOption{OptionType: uint8(r.Range(2, 60)), OptionLength: uint8(l), ActualLength: l + 2, OptionData: r.Bytes(l)})
	}
	return
}

func sum(x []int) (n int) {
	for _, v := range x {
		n += v
	}
	return
}

func builtNDPOptions(r *vlib.Rand) layers.ICMPv6Options {
	var out layers.ICMPv6Options
	for n := r.Intn(5); n > 0; n-- {
		switch r.Intn(4) {
		case 0:
			out = append(out, layers.ICMPv6Option{Type: layers.ICMPv6OptSourceAddress, Data: r.Bytes(6)})
		case 1:
			out = append(out, layers.ICMPv6Option{Type: layers.ICMPv6OptTargetAddress, Data: r.Bytes(6)})
		case 2:
			out = append(out, layers.ICMPv6Option{Type: layers.ICMPv6OptMTU, Data: r.Bytes(6)})
		default:
			out = append(out, layers.ICMPv6Option{Type: layers.ICMPv6OptPrefixInfo, Data: r.Bytes(30)})
		}
	}
	return out
}

func builtDNS(r *vlib.Rand) *layers.DNS {
	d := &layers.DNS{ID: r.U16(), QR: r.Bool(), OpCode: layers.DNSOpCode(r.Intn(3)), AA: r.Bool(), RD: r.Bool(), RA: r.Bool(), Z: uint8(r.Intn(8)), ResponseCode: layers.DNSResponseCode(r.Intn(11))}
	for n := r.Range(1, 2); n > 0; n-- {
		d.Questions = append(d.Questions, layers.DNSQuestion{Name: rName(r), Type: layers.DNSType([]int{1, 28, 15, 16, 33, 12, 2, 5, 6}[r.Intn(9)]), Class: layers.DNSClassIN})
	}
	rr := func() layers.DNSResourceRecord {
		x := layers.DNSResourceRecord{Name: rName(r), Class: layers.DNSClassIN, TTL: r.U32() >> 1}
		switch r.Intn(9) {
		case 0:
			x.Type, x.IP = layers.DNSTypeA, rIP4(r)
		case 1:
			x.Type, x.IP = layers.DNSTypeAAAA, rIP6(r)
		case 2:
			x.Type, x.NS = layers.DNSTypeNS, rName(r)
		case 3:
			x.Type, x.CNAME = layers.DNSTypeCNAME, rName(r)
		case 4:
			x.Type, x.PTR = layers.DNSTypePTR, rName(r)
		case 5:
			x.Type, x.MX = layers.DNSTypeMX, layers.DNSMX{Preference: r.U16(), Name: rName(r)}
		case 6:
			x.Type, x.SRV = layers.DNSTypeSRV, layers.DNSSRV{Priority: r.U16(), Weight: r.U16(), Port: r.U16(), Name: rName(r)}
		case 7:
			x.Type, x.SOA = layers.DNSTypeSOA, layers.DNSSOA{MName: rName(r), RName: rName(r), Serial: r.U32(), Refresh: r.U32(), Retry: r.U32(), Expire: r.U32(), Minimum: r.U32()}
		default:
			x.Type = layers.DNSTypeTXT
			for k := r.Range(1, 3); k > 0; k-- {
				x.TXTs = append(x.TXTs, r.Bytes(r.Range(1, 40)))
			}
		}
		return x
	}
	for n := r.Intn(4); n > 0; n-- {
		d.Answers = append(d.Answers, rr())
	}
	for n := r.Intn(3); n > 0; n-- {
		d.Authorities = append(d.Authorities, rr())
	}
	for n := r.Intn(3); n > 0; n-- {
		d.Additionals = append(d.Additionals, rr())
	}
	return d
}

// builtStack returns layers (outermost first), the innermost payload, and the layer types expected after decoding.
func builtStack(r *vlib.Rand) (ls []gopacket.SerializableLayer, payload []byte, want []string, desc string) {
	size := builtSizes[r.Intn(len(builtSizes))]
	if r.Chance(1, 3) {
		size = r.Intn(1500)
	}
	eth := &layers.Ethernet{SrcMAC: rMAC(r), DstMAC: rMAC(r)}
	ls = append(ls, eth)
	want = append(want, "Ethernet")
	setType := func(t layers.EthernetType) { eth.EthernetType = t }
	for n := r.Intn(3); n > 0; n-- {
		q := &layers.Dot1Q{Priority: uint8(r.Intn(8)), DropEligible: r.Bool(), VLANIdentifier: uint16(r.Intn(4096))}
		setType(layers.EthernetTypeDot1Q)
		ls = append(ls, q)
		want = append(want, "Dot1Q")
		setType = func(t layers.EthernetType) { q.Type = t }
	}
	var setProto func(layers.IPProtocol)
	var nl gopacket.NetworkLayer
	v6 := false
	jumboOK := false
	tunnel := false
	addIP := func() {
		if r.Bool() {
			ip := &layers.IPv4{Version: 4, TOS: r.Byte(), Id: r.U16(), Flags: layers.IPv4Flag(r.Intn(2) * 2), TTL: r.Byte(), SrcIP: rIP4(r), DstIP: rIP4(r), Options: builtIPv4Options(r)}
			setType(layers.EthernetTypeIPv4)
			ls = append(ls, ip)
			want = append(want, "IPv4")
			setProto = func(p layers.IPProtocol) { ip.Protocol = p }
			nl = ip
			v6 = false
			return
		}
		ip := &layers.IPv6{Version: 6, TrafficClass: r.Byte(), FlowLabel: r.U32() & 0xfffff, HopLimit: r.Byte(), SrcIP: rIP6(r), DstIP: rIP6(r)}
		setType(layers.EthernetTypeIPv6)
		ls = append(ls, ip)
		want = append(want, "IPv6")
		setProto = func(p layers.IPProtocol) { ip.NextHeader = p }
		nl = ip
		v6 = true
		jumboOK = !tunnel
		hbh, dst := builtTLVs(r)
		long := 0
		for _, o := range hbh {
			long += o.ActualLength
		}
		if long > 100 {
			size = min(size, 30000) // long extension headers: stay clear of the 64 KiB datagram limits, which are another tier
		}
		if r.Chance(1, 3) {
			h := &layers.IPv6HopByHop{Options: hbh}
			setProto(layers.IPProtocolIPv6HopByHop)
			ls = append(ls, h)
			want = append(want, "IPv6HopByHop")
			setProto = func(p layers.IPProtocol) { h.NextHeader = p }
			jumboOK = false
		}
		if r.Chance(1, 4) {
			h := &layers.IPv6Destination{Options: dst}
			setProto(layers.IPProtocolIPv6Destination)
			ls = append(ls, h)
			want = append(want, "IPv6Destination")
			setProto = func(p layers.IPProtocol) { h.NextHeader = p }
			jumboOK = false
		}
		if r.Chance(1, 5) {
			h := &layers.IPv6Routing{RoutingType: 0, SegmentsLeft: uint8(r.Intn(3)), Reserved: []byte{0, 0, 0, 0}}
			k := r.Range(1, 3)
			if r.Chance(1, 4) {
				k = r.Range(14, 40) // 16 addresses make a 264-byte header
				size = min(size, 30000)
			}
			for ; k > 0; k-- {
				h.SourceRoutingIPs = append(h.SourceRoutingIPs, rIP6(r))
			}
			setProto(layers.IPProtocolIPv6Routing)
			ls = append(ls, h)
			want = append(want, "IPv6Routing")
			setProto = func(p layers.IPProtocol) { h.NextHeader = p }
			jumboOK = false
		}
	}
	if r.Chance(1, 12) {
		setType(layers.EthernetTypeARP)
		ls = append(ls, &layers.ARP{AddrType: layers.LinkTypeEthernet, Protocol: layers.EthernetTypeIPv4, HwAddressSize: 6, ProtAddressSize: 4, Operation: uint16(r.Range(1, 2)), SourceHwAddress: rMAC(r), SourceProtAddress: rIP4(r), DstHwAddress: rMAC(r), DstProtAddress: rIP4(r)})
		want = append(want, "ARP")
		return ls, nil, want, "arp"
	}
	addIP()
	if r.Chance(1, 6) {
		tunnel = true
		g := &layers.GRE{ChecksumPresent: r.Bool(), KeyPresent: r.Bool(), SeqPresent: r.Bool()}
		if g.KeyPresent {
			g.Key = r.U32()
		}
		if g.SeqPresent {
			g.Seq = r.U32()
		}
		if r.Chance(1, 3) {
			g.RoutingPresent = true
			var head, tail *layers.GRERouting
			for k := r.Range(1, 2); k > 0; k-- {
				info := r.Bytes(r.Range(1, 9))
				s := &layers.GRERouting{AddressFamily: uint16(r.Range(1, 0x900)), SREOffset: uint8(r.Intn(4)), SRELength: uint8(len(info)), RoutingInformation: info}
				if head == nil {
					head = s
				} else {
					tail.Next = s
				}
				tail = s
			}
			g.GRERouting = head
			g.Offset = uint16(r.Intn(8))
		}
		if r.Chance(1, 3) {
			g.AckPresent, g.Ack = true, r.U32()
		}
		setProto(layers.IPProtocolGRE)
		ls = append(ls, g)
		want = append(want, "GRE")
		setType = func(t layers.EthernetType) { g.Protocol = t }
		addIP()
	}
	if size > 1500 && r.Chance(1, 2) {
		// not every tunnel tolerates it, the plain ones do
	}
	switch k := r.Intn(8); {
	case k <= 1:
		t := &layers.TCP{SrcPort: layers.TCPPort(r.Range(20000, 28000)), DstPort: layers.TCPPort(r.Range(20000, 28000)), Seq: r.U32(), Ack: r.U32(), SYN: r.Bool(), ACK: r.Bool(), PSH: r.Bool(), FIN: r.Bool(), ECE: r.Bool(), NS: r.Bool(), Window: r.U16(), Urgent: r.U16(), Options: builtTCPOptions(r)}
		t.SetNetworkLayerForChecksum(nl)
		setProto(layers.IPProtocolTCP)
		ls = append(ls, t)
		want = append(want, "TCP")
		desc = "tcp"
		if v6 && jumboOK && r.Chance(1, 6) {
			size = []int{65536, 65537, 70001}[r.Intn(3)] // jumbogram: the IPv6 serializer adds the hop-by-hop option itself
			want = append(want[:len(want)-1], "IPv6HopByHop", "TCP")
			desc = "tcp-jumbo"
			if r.Bool() {
				// the caller's own hop-by-hop options (short or long) carried in the IPv6 layer: the jumbo option joins them
				hbh, _ := builtTLVs(r)
				nl.(*layers.IPv6).HopByHop = &layers.IPv6HopByHop{Options: hbh}
				nl.(*layers.IPv6).HopByHop.NextHeader = layers.IPProtocolTCP
				desc = "tcp-jumbo-own-options"
			}
		}
	case k <= 3:
		u := &layers.UDP{SrcPort: layers.UDPPort(r.Range(20000, 28000)), DstPort: layers.UDPPort(r.Range(20000, 28000))}
		u.SetNetworkLayerForChecksum(nl)
		setProto(layers.IPProtocolUDP)
		ls = append(ls, u)
		want = append(want, "UDP")
		desc = "udp"
		if r.Chance(1, 3) {
			u.DstPort = 53
			ls = append(ls, builtDNS(r))
			want = append(want, "DNS")
			return ls, nil, want, "udp-dns"
		}
	case k == 4 && !v6:
		setProto(layers.IPProtocolICMPv4)
		ls = append(ls, &layers.ICMPv4{TypeCode: layers.CreateICMPv4TypeCode([]uint8{0, 8, 3, 11}[r.Intn(4)], uint8(r.Intn(3))), Id: r.U16(), Seq: r.U16()})
		want = append(want, "ICMPv4")
		desc = "icmp4"
	case k == 4 || k == 5 && v6:
		if !v6 {
			return builtStack(r)
		}
		ic := &layers.ICMPv6{}
		ic.SetNetworkLayerForChecksum(nl)
		setProto(layers.IPProtocolICMPv6)
		ls = append(ls, ic)
		want = append(want, "ICMPv6")
		switch r.Intn(5) {
		case 0:
			ic.TypeCode = layers.CreateICMPv6TypeCode(layers.ICMPv6TypeRouterSolicitation, 0)
			ls = append(ls, &layers.ICMPv6RouterSolicitation{Options: builtNDPOptions(r)})
			want = append(want, "ICMPv6RouterSolicitation")
		case 1:
			ic.TypeCode = layers.CreateICMPv6TypeCode(layers.ICMPv6TypeRouterAdvertisement, 0)
			ls = append(ls, &layers.ICMPv6RouterAdvertisement{HopLimit: r.Byte(), Flags: r.Byte() & 0xc0, RouterLifetime: r.U16(), ReachableTime: r.U32(), RetransTimer: r.U32(), Options: builtNDPOptions(r)})
			want = append(want, "ICMPv6RouterAdvertisement")
		case 2:
			ic.TypeCode = layers.CreateICMPv6TypeCode(layers.ICMPv6TypeNeighborSolicitation, 0)
			ls = append(ls, &layers.ICMPv6NeighborSolicitation{TargetAddress: rIP6(r), Options: builtNDPOptions(r)})
			want = append(want, "ICMPv6NeighborSolicitation")
		case 3:
			ic.TypeCode = layers.CreateICMPv6TypeCode(layers.ICMPv6TypeNeighborAdvertisement, 0)
			ls = append(ls, &layers.ICMPv6NeighborAdvertisement{Flags: r.Byte() & 0xe0, TargetAddress: rIP6(r), Options: builtNDPOptions(r)})
			want = append(want, "ICMPv6NeighborAdvertisement")
		default:
			ic.TypeCode = layers.CreateICMPv6TypeCode(layers.ICMPv6TypeEchoRequest, 0)
			ls = append(ls, &layers.ICMPv6Echo{Identifier: r.U16(), SeqNumber: r.U16()})
			want = append(want, "ICMPv6Echo")
			return ls, r.Bytes(size % 1400), want, "icmp6-echo"
		}
		return ls, nil, want, "icmp6-ndp"
	case k == 5:
		u := &layers.UDP{SrcPort: layers.UDPPort(r.Range(20000, 28000)), DstPort: 4789}
		u.SetNetworkLayerForChecksum(nl)
		setProto(layers.IPProtocolUDP)
		vx := &layers.VXLAN{ValidIDFlag: true, VNI: r.U32() & 0xffffff}
		in := &layers.Ethernet{SrcMAC: rMAC(r), DstMAC: rMAC(r), EthernetType: layers.EthernetTypeIPv4}
		ip := &layers.IPv4{Version: 4, TTL: 64, Protocol: layers.IPProtocolUDP, SrcIP: rIP4(r), DstIP: rIP4(r)}
		iu := &layers.UDP{SrcPort: layers.UDPPort(r.Range(20000, 28000)), DstPort: layers.UDPPort(r.Range(20000, 28000))}
		iu.SetNetworkLayerForChecksum(ip)
		ls = append(ls, u, vx, in, ip, iu)
		want = append(want, "UDP", "VXLAN", "Ethernet", "IPv4", "UDP")
		desc = "vxlan"
		if size > 1400 {
			size %= 1400
		}
	case k == 6:
		s := &layers.SCTP{SrcPort: layers.SCTPPort(r.Range(20000, 28000)), DstPort: layers.SCTPPort(r.Range(20000, 28000)), VerificationTag: r.U32()}
		setProto(layers.IPProtocolSCTP)
		n := r.Range(1, 1200)
		data := r.Bytes(n)
		ch := &layers.SCTPData{SCTPChunk: layers.SCTPChunk{Type: layers.SCTPChunkTypeData, Length: uint16(16 + n), ActualLength: (16 + n + 3) &^ 3}, BeginFragment: r.Bool(), EndFragment: r.Bool(), Unordered: r.Bool(), TSN: r.U32(), StreamId: r.U16(), StreamSequence: r.U16(), PayloadProtocol: layers.SCTPPayloadProtocol(r.Intn(12))}
		ch.Payload = data
		for i, f := range []bool{ch.EndFragment, ch.BeginFragment, ch.Unordered} {
			if f {
				ch.Flags |= 1 << i
			}
		}
		ls = append(ls, s, ch)
		want = append(want, "SCTP", "SCTPData")
		return ls, nil, want, "sctp-data"
	default:
		u := &layers.UDPLite{SrcPort: layers.UDPLitePort(r.Range(20000, 28000)), DstPort: layers.UDPLitePort(r.Range(20000, 28000))}
		_ = u
		uu := &layers.UDP{SrcPort: layers.UDPPort(r.Range(20000, 28000)), DstPort: layers.UDPPort(r.Range(20000, 28000))}
		uu.SetNetworkLayerForChecksum(nl)
		setProto(layers.IPProtocolUDP)
		ls = append(ls, uu)
		want = append(want, "UDP")
		desc = "udp"
	}
	if size > 65000 && !strings.Contains(desc, "jumbo") {
		size = 65000
	}
	hdr := 0
	for range ls {
		hdr += 60
	}
	if !strings.Contains(desc, "jumbo") && size+hdr > 65000 {
		size = 65000 - hdr
	}
	return ls, r.Bytes(size), want, desc
}

// stripPads removes the pad options the serializer inserts for alignment (and the decoder reports as options).
func stripPads(l gopacket.Layer) {
	switch x := l.(type) {
	case *layers.IPv6HopByHop:
		var o []*layers.IPv6HopByHopOption
		for _, p := range x.Options {
			if p != nil && p.OptionType > 1 {
				o = append(o, p)
			}
		}
		x.Options = o
	case *layers.IPv6Destination:
		var o []*layers.IPv6DestinationOption
		for _, p := range x.Options {
			if p != nil && p.OptionType > 1 {
				o = append(o, p)
			}
		}
		x.Options = o
	}
}

func c06Built(c *vlib.Ctx) {
	n := c.Pick(4000, 100000)
	chunk := 100
	for k := 0; k*chunk < n; k++ {
		if !c.Begin(k) {
			continue
		}
		for j := 0; j < chunk; j++ {
			seed := vlib.Mix(c.Rand(uint64(k)).U64(), uint64(j))
			c06BuiltOne(c, seed)
		}
		c.End()
	}
}

// builtBoundary builds a plain Ethernet/IP/transport stack whose payload size lies within 10 bytes of the largest size
// the length fields can express: IPv4 total length 65535 (beyond it the writer has to refuse), IPv6 payload length
// 65535 (beyond it the packet becomes a jumbogram, for UDP with length 0 in its own header).
func builtBoundary(r *vlib.Rand) (ls []gopacket.SerializableLayer, payload []byte, want []string, desc string, refuseOK bool) {
	eth := &layers.Ethernet{SrcMAC: rMAC(r), DstMAC: rMAC(r)}
	ls, want = append(ls, eth), append(want, "Ethernet")
	v6 := r.Bool()
	d := r.Range(-10, 10)
	var nl gopacket.NetworkLayer
	var setProto func(layers.IPProtocol)
	limit := 65535
	if v6 {
		ip := &layers.IPv6{Version: 6, TrafficClass: r.Byte(), FlowLabel: r.U32() & 0xfffff, HopLimit: r.Byte(), SrcIP: rIP6(r), DstIP: rIP6(r)}
		eth.EthernetType = layers.EthernetTypeIPv6
		ls, want, nl = append(ls, ip), append(want, "IPv6"), ip
		setProto = func(p layers.IPProtocol) { ip.NextHeader = p }
		desc = "boundary-v6"
	} else {
		ip := &layers.IPv4{Version: 4, TOS: r.Byte(), Id: r.U16(), TTL: r.Byte(), SrcIP: rIP4(r), DstIP: rIP4(r)}
		eth.EthernetType = layers.EthernetTypeIPv4
		ls, want, nl = append(ls, ip), append(want, "IPv4"), ip
		setProto = func(p layers.IPProtocol) { ip.Protocol = p }
		limit -= 20
		refuseOK = d > 0
		desc = "boundary-v4"
	}
	hdr := 0
	l4 := ""
	switch k := r.Intn(3); {
	case k == 0:
		u := &layers.UDP{SrcPort: layers.UDPPort(r.Range(20000, 28000)), DstPort: layers.UDPPort(r.Range(20000, 28000))}
		u.SetNetworkLayerForChecksum(nl)
		setProto(layers.IPProtocolUDP)
		ls, l4, hdr = append(ls, u), "UDP", 8
		desc += "-udp"
	case k == 1 || v6:
		t := &layers.TCP{SrcPort: layers.TCPPort(r.Range(20000, 28000)), DstPort: layers.TCPPort(r.Range(20000, 28000)), Seq: r.U32(), Ack: r.U32(), ACK: true, Window: r.U16()}
		t.SetNetworkLayerForChecksum(nl)
		setProto(layers.IPProtocolTCP)
		ls, l4, hdr = append(ls, t), "TCP", 20
		desc += "-tcp"
	default:
		setProto(layers.IPProtocolICMPv4)
		ls, l4, hdr = append(ls, &layers.ICMPv4{TypeCode: layers.CreateICMPv4TypeCode(8, 0), Id: r.U16(), Seq: r.U16()}), "ICMPv4", 8
		desc += "-icmp4"
	}
	size := limit - hdr + d
	if v6 && d > 0 {
		want = append(want, "IPv6HopByHop") // the jumbo payload option the IPv6 writer adds by itself
	}
	want = append(want, l4)
	return ls, r.Bytes(size), want, desc, refuseOK
}

func c06BuiltOne(c *vlib.Ctx, seed uint64) {
	ls, payload, want, desc := builtStack(vlib.NewRand(seed))
	refuseOK := false
	if seed%8 == 0 {
		ls, payload, want, desc, refuseOK = builtBoundary(vlib.NewRand(seed))
	}
	key := strings.Join(want, "/")
	if len(payload) > 0 {
		want = append(want, "Payload")
	}
	all := ls
	if len(payload) > 0 {
		all = append(append([]gopacket.SerializableLayer{}, ls...), gopacket.Payload(payload))
	}
	det := map[string]any{"stack": key, "shape": desc, "payload_len": len(payload), "build_seed": seed}
	for i, l := range ls {
		det[fmt.Sprintf("layer_%d", i)] = trunc300(gopacket.LayerString(l.(gopacket.Layer)))
	}
	// every other stack is written into a buffer that held an earlier packet (bytes and recorded layers) and was cleared
	// by the stacking helper itself: the round trip must not depend on it
	buf := gopacket.NewSerializeBuffer()
	if seed%2 == 1 {
		buf = dirtyBuffer()
		det["buffer"] = "reused"
	}
	var err error
	if pi := vlib.Guard(func() { err = gopacket.SerializeLayers(buf, optsFix, all...) }); pi != nil {
		c.Violation("built:panic@"+pi.Func, fmt.Sprintf("writing a stack built from in-range values (%s) panicked: %s", key, pi.Value), det)
		return
	}
	c.Evals(1)
	if err != nil && refuseOK {
		c.Count("built_over_limit_refused", 1) // a size the length field cannot express: refusing it is the right answer
		return
	}
	if err != nil {
		c.Violation("built:serialize-error:"+desc, fmt.Sprintf("a stack built from in-range values (%s, %d byte payload) cannot be written: %v", key, len(payload), err), det)
		return
	}
	out := append([]byte{}, buf.Bytes()...)
	det["wire_hex"] = hx(out[:min(len(out), 400)])
	p := decodeEth(out)
	if p == nil {
		return
	}
	if e := p.ErrorLayer(); !isNilLayer(e) {
		c.Violation("built:decode-error:"+desc, fmt.Sprintf("stack %s built from in-range values decodes with an error: %v", key, e.Error()), det)
		return
	}
	if n := len(p.Layers()); len(payload) > 0 && n == len(want)-1 && bytes.Equal(p.Layers()[n-1].LayerPayload(), payload) {
		want = want[:len(want)-1] // a layer that keeps its payload to itself (ICMPv6 echo)
		payload = nil
	}
	if !sameStack(want, p, len(out)) {
		var qt []string
		for _, l := range p.Layers() {
			qt = append(qt, l.LayerType().String())
		}
		c.Violation("built:decodes-differently:"+desc, fmt.Sprintf("stack %s decodes as %s", strings.Join(want, "/"), strings.Join(qt, "/")), det)
		return
	}
	if p.Metadata().Truncated {
		c.Violation("built:truncated-flag:"+desc, fmt.Sprintf("stack %s decodes with the truncation flag set", key), det)
		return
	}
	// field values: every built layer against the decoded layer of the same position (jumbo: the inserted hop-by-hop is skipped)
	dl := p.Layers()
	di := 0
	for _, l := range ls {
		for di < len(dl) && dl[di].LayerType() != l.(gopacket.Layer).LayerType() {
			di++
		}
		if di >= len(dl) {
			break
		}
		got := dl[di]
		di++
		stripPads(got)
		stripPads(l.(gopacket.Layer))
		if path, d := fieldsSurvive(l, got); path != "" {
			c.Violation("built:field-lost:"+typeKey(got.LayerType())+":"+path, fmt.Sprintf("%s built from in-range values, written and decoded, differs: %s", got.LayerType(), d), det)
			return
		}
	}
	if len(payload) > 0 {
		last := dl[len(dl)-1]
		if len(out) == 60 && len(dl) == len(want)+1 {
			last = dl[len(dl)-2]
		}
		if !bytes.Equal(last.LayerContents(), payload) {
			c.Violation("built:payload-differs:"+desc, fmt.Sprintf("stack %s: the %d byte payload comes back as %d bytes", key, len(payload), len(last.LayerContents())), det)
			return
		}
	}
	// the decoded stack written again reproduces the bytes (decode afresh: stripPads changed the layers above)
	q := decodeEth(out)
	stackOf(q)
	buf2 := gopacket.NewSerializeBuffer()
	var err2 error
	if pi := vlib.Guard(func() { err2 = gopacket.SerializePacket(buf2, optsFix, q) }); pi == nil {
		if err2 != nil {
			c.Violation("built:rewrite-error:"+desc, "SerializePacket of the decoded stack failed: "+err2.Error(), det)
			return
		} else if !bytes.Equal(buf2.Bytes(), out) {
			c.Violation("built:rewrite-differs:"+desc, fmt.Sprintf("SerializePacket of the decoded stack gives different bytes (first difference at %d of %d/%d)", firstDiff(buf2.Bytes(), out), len(out), len(buf2.Bytes())), det)
			return
		}
	}
	c.Count("built_stacks_round_tripped", 1)
	c.CountIn("built_shapes", desc, 1)
	for _, t := range want {
		c.CountIn("built_layer_types", t, 1)
	}
	c.CountIn("built_payload_size_classes", sizeClass(len(payload)), 1)
	c.NonTrivial(vlib.Mix(seed, vlib.HashBytes(out[:min(len(out), 128)])))
	if c.WantSample() {
		c.Sample(map[string]any{"stack": strings.Join(want, "/"), "payload_len": len(payload), "bytes": len(out)})
	}
	_ = sig.StripIdx
}

func sizeClass(n int) string {
	switch {
	case n == 0:
		return "0"
	case n%2 == 1 && n < 1500:
		return "odd<1500"
	case n < 1500:
		return "even<1500"
	case n <= 65535:
		return "1500..65535"
	default:
		return ">65535"
	}
}
