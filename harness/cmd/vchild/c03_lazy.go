package main

import (
	"encoding/hex"
	"fmt"

	"github.com/gopacket/gopacket"
	"github.com/gopacket/gopacket/layers"

	"verif/harness/internal/sig"
	"verif/harness/internal/vlib"
)

func init() {
	vlib.Register("C03", "lazy", c03Lazy)
}

// acc is one accessor call of a program.
type acc struct {
	kind int // 0 Layer(t) 1 LayerClass(c) 2 Link 3 Network 4 Transport 5 Application 6 Error 7 Layers 8 String 9 Dump
	t    gopacket.LayerType
	c    int
}

func (a acc) String() string {
	switch a.kind {
	case 0:
		return fmt.Sprintf("Layer(%s)", a.t)
	case 1:
		return fmt.Sprintf("LayerClass(#%d)", a.c)
	}
	return []string{"", "", "LinkLayer", "NetworkLayer", "TransportLayer", "ApplicationLayer", "ErrorLayer", "Layers", "String", "Dump"}[a.kind]
}

func layerSig(l gopacket.Layer) string {
	if isNilLayer(l) {
		return "nil"
	}
	return l.LayerType().String() + "|" + sig.Of(l) + "|" + hex.EncodeToString(l.LayerContents()) + "|" + hex.EncodeToString(l.LayerPayload())
}

// run executes one accessor on p and returns a comparable result.
func (a acc) run(p gopacket.Packet) string {
	switch a.kind {
	case 0:
		return layerSig(p.Layer(a.t))
	case 1:
		return layerSig(p.LayerClass(c01Classes[a.c]))
	case 2:
		if l := p.LinkLayer(); !isNilLayer(l) {
			return layerSig(l)
		}
		return "nil"
	case 3:
		if l := p.NetworkLayer(); !isNilLayer(l) {
			return layerSig(l)
		}
		return "nil"
	case 4:
		if l := p.TransportLayer(); !isNilLayer(l) {
			return layerSig(l)
		}
		return "nil"
	case 5:
		if l := p.ApplicationLayer(); !isNilLayer(l) {
			return layerSig(l)
		}
		return "nil"
	case 6:
		if l := p.ErrorLayer(); !isNilLayer(l) {
			return layerSig(l)
		}
		return "nil"
	case 7:
		s := ""
		for _, l := range p.Layers() {
			s += layerSig(l) + ";"
		}
		return s
	case 8:
		return p.String()
	}
	// a decode failure produced by a recovered panic carries the goroutine stack of the moment it happened, which
	// legitimately differs between the eager and the lazy call path: leave it out of the comparison
	if e := p.ErrorLayer(); !isNilLayer(e) && e.LayerType() == gopacket.LayerTypeDecodeFailure {
		return "dump-with-decode-failure"
	}
	return p.Dump()
}

func c03Programs(r *vlib.Rand, eager gopacket.Packet, n int) [][]acc {
	ls := eager.Layers()
	var own []gopacket.LayerType
	for _, l := range ls {
		own = append(own, l.LayerType())
	}
	pick := func() acc {
		switch k := r.Intn(14); {
		case k < 4 && len(own) > 0:
			return acc{kind: 0, t: own[r.Intn(len(own))]}
		case k < 5:
			return acc{kind: 0, t: c01Foreign[r.Intn(len(c01Foreign))]}
		case k < 7:
			return acc{kind: 1, c: r.Intn(len(c01Classes))}
		default:
			return acc{kind: 2 + r.Intn(8)}
		}
	}
	var progs [][]acc
	// every single accessor that stops decoding at a different layer, as the first call, followed by a PRNG tail
	for _, t := range own {
		progs = append(progs, []acc{{kind: 0, t: t}, pick(), {kind: 7}})
	}
	for k := 2; k <= 6; k++ {
		progs = append(progs, []acc{{kind: k}, pick(), pick()})
	}
	// every ordered pair of Layer(own type) calls for short packets
	if len(own) <= 5 {
		for _, a := range own {
			for _, b := range own {
				progs = append(progs, []acc{{kind: 0, t: a}, {kind: 0, t: b}})
			}
		}
	}
	for len(progs) < n {
		ln := r.Range(1, 12)
		var p []acc
		for i := 0; i < ln; i++ {
			a := pick()
			p = append(p, a)
			if r.Chance(1, 4) {
				p = append(p, a) // the same call twice in a row must give the same answer
			}
		}
		progs = append(progs, p)
	}
	return progs
}

func c03Lazy(c *vlib.Ctx) {
	cp := getCorpus()
	perType := c.Pick(160, 1600)
	idx := 0
	for ti, t := range cp.Types {
		if ti%c.NBatch != c.Batch {
			continue
		}
		chunk := 20
		for k := 0; k < perType; k += chunk {
			idx++
			if !c.Begin(idx) {
				continue
			}
			r := c.Rand(uint64(t), uint64(k))
			for j := 0; j < chunk; j++ {
				b, how := cp.Input(r, t)
				if len(b) == 0 {
					continue // the property is about non-empty inputs
				}
				if len(b) > 4096 {
					b = b[:4096] // String/Dump of every program step on 64 KiB inputs only measures the hex dumper
				}
				nocopy, dsad := r.Bool(), r.Bool()
				eo := gopacket.DecodeOptions{NoCopy: nocopy, DecodeStreamsAsDatagrams: dsad}
				lo := eo
				lo.Lazy = true
				var eager gopacket.Packet
				if pi := vlib.Guard(func() { eager = c03New(b, t, eo); eager.Layers() }); pi != nil {
					continue
				}
				det := func(prog []acc, step int) map[string]any {
					return map[string]any{"first_layer": t.String(), "input_hex": hx(b), "mutation": how, "options": optString(eo), "program": fmt.Sprint(prog), "step": step}
				}
				nl := len(eager.Layers())
				progs := c03Programs(r, eager, c.Pick(12, 30))
				for _, prog := range progs {
					var lazy gopacket.Packet
					bad := false
					pi := vlib.Guard(func() {
						lazy = c03New(b, t, lo)
						for si, a := range prog {
							want := a.run(eager)
							got := a.run(lazy)
							if want != got {
								what := "contents"
								if (want == "nil") != (got == "nil") {
									what = "nil-ness"
								}
								c.Violation(fmt.Sprintf("lazy-differs:%s:%s", []string{"Layer", "LayerClass", "LinkLayer", "NetworkLayer", "TransportLayer", "ApplicationLayer", "ErrorLayer", "Layers", "String", "Dump"}[a.kind], what),
									fmt.Sprintf("step %d (%s) of the accessor program answers differently on the lazy packet (%s)", si, a, what), det(prog, si))
								bad = true
								return
							}
						}
						// once everything was requested, the whole packets agree, including truncation flag and rendered string
						es, lsg := sig.Packet(eager, true), sig.Packet(lazy, true)
						if ok, what := es.Equal(lsg); !ok {
							c.Violation("lazy-differs:final:"+what, "after all layers were requested the lazy packet differs from the eager one: "+what, det(prog, len(prog)))
							bad = true
						}
					})
					c.Evals(1)
					if pi != nil {
						c.Violation("lazy-accessor-panicked@"+pi.Func, fmt.Sprintf("an accessor of the lazy packet panicked (%s) where the eager packet answers", pi.Value), det(prog, -1))
						bad = true
					}
					if nl >= 3 && len(prog) > 0 && prog[0].kind != 7 && prog[0].kind != 8 && prog[0].kind != 9 {
						c.NonTrivial(vlib.Mix(uint64(t), vlib.HashBytes(b), vlib.HashString(fmt.Sprint(prog))))
					}
					if bad {
						break
					}
				}
				c.Count("accessor_programs", len(progs))
				if c.WantSample() && nl >= 3 {
					c.Sample(map[string]any{"first_layer": t.String(), "layers": nl, "program": fmt.Sprint(progs[len(progs)-1]), "options": optString(lo)})
				}
			}
			c.End()
		}
		c.CountIn("inputs_per_layer_type", t.String(), perType)
		// every prefix of some seeds: truncation moves the point of failure through every layer boundary, and each
		// "first call" accessor (which decides how far the lazy packet decodes before it answers) is asked first
		seeds := cp.Seeds[t]
		nSeeds := min(len(seeds), c.Pick(4, 40))
		for si := 0; si < nSeeds; si++ {
			idx++
			if !c.Begin(idx) {
				continue
			}
			r := c.Rand(uint64(t), 777777, uint64(si))
			seed := seeds[r.Intn(len(seeds))]
			if si == 0 {
				seed = seeds[0]
			}
			lim := min(len(seed), c.Pick(160, 1500))
			for n := 1; n <= lim; n++ {
				c03Prefix(c, r, t, seed[:n])
			}
			c.Count("prefixes_enumerated", lim)
			c.End()
		}
	}
	_ = layers.LayerTypeEthernet
}

// c03Prefix compares, for one input, a fresh lazy packet per first-call accessor with the eager packet.
func c03Prefix(c *vlib.Ctx, r *vlib.Rand, t gopacket.LayerType, b []byte) {
	nocopy, dsad := r.Bool(), r.Bool()
	eo := gopacket.DecodeOptions{NoCopy: nocopy, DecodeStreamsAsDatagrams: dsad}
	lo := eo
	lo.Lazy = true
	var eager gopacket.Packet
	if pi := vlib.Guard(func() { eager = c03New(b, t, eo); eager.Layers() }); pi != nil {
		return
	}
	var progs [][]acc
	for k := 2; k <= 6; k++ {
		progs = append(progs, []acc{{kind: k}, {kind: 6}, {kind: 7}})
	}
	seenT := map[gopacket.LayerType]bool{}
	for _, l := range eager.Layers() {
		if !seenT[l.LayerType()] {
			seenT[l.LayerType()] = true
			progs = append(progs, []acc{{kind: 0, t: l.LayerType()}, {kind: 6}})
		}
	}
	for ci := range c01Classes {
		progs = append(progs, []acc{{kind: 1, c: ci}, {kind: 7}})
	}
	names := []string{"Layer", "LayerClass", "LinkLayer", "NetworkLayer", "TransportLayer", "ApplicationLayer", "ErrorLayer", "Layers", "String", "Dump"}
	for _, prog := range progs {
		bad := false
		pi := vlib.Guard(func() {
			lazy := c03New(b, t, lo)
			for si, a := range prog {
				want, got := a.run(eager), a.run(lazy)
				if want != got {
					what := "contents"
					if (want == "nil") != (got == "nil") {
						what = "nil-ness"
					}
					c.Violation(fmt.Sprintf("lazy-differs:%s:%s", names[a.kind], what),
						fmt.Sprintf("step %d (%s) of the accessor program answers differently on the lazy packet (%s)", si, a, what),
						map[string]any{"first_layer": t.String(), "input_hex": hx(b), "mutation": "prefix", "options": optString(eo), "program": fmt.Sprint(prog), "step": si})
					bad = true
					return
				}
			}
		})
		c.Evals(1)
		if pi != nil {
			c.Violation("lazy-accessor-panicked@"+pi.Func, fmt.Sprintf("an accessor of the lazy packet panicked (%s) where the eager packet answers", pi.Value),
				map[string]any{"first_layer": t.String(), "input_hex": hx(b), "mutation": "prefix", "options": optString(eo), "program": fmt.Sprint(prog)})
			bad = true
		}
		if bad {
			break
		}
	}
	if len(eager.Layers()) >= 3 {
		c.NonTrivial(vlib.Mix(uint64(t), vlib.HashBytes(b), 777))
	}
	c.Count("accessor_programs", len(progs))
}

// c03New makes the packet the way a caller with a reused read buffer does: without NoCopy the packet owns its bytes from
// construction on, so the buffer it was made from is overwritten before the first accessor runs - for the eager and the
// lazy packet alike. With NoCopy the caller keeps the buffer unchanged, as the option requires.
func c03New(b []byte, t gopacket.LayerType, o gopacket.DecodeOptions) gopacket.Packet {
	if o.NoCopy {
		return gopacket.NewPacket(b, t, o)
	}
	tmp := append(make([]byte, 0, len(b)), b...)
	p := gopacket.NewPacket(tmp, t, o)
	for i := range tmp {
		tmp[i] = ^tmp[i]
	}
	return p
}
