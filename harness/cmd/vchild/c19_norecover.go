package main

import (
	"fmt"
	"reflect"

	"github.com/gopacket/gopacket"

	"verif/harness/internal/vlib"
)

func init() {
	vlib.Register("C19", "norecover", c19NoRecover)
}

type c19State struct {
	c       *vlib.Ctx
	used    map[gopacket.LayerType]gopacket.DecodingLayer // previously used objects, one per type
	parser  *gopacket.DecodingLayerParser
	minOK   map[gopacket.LayerType]int // shortest input on which DecodeFromBytes returned nil
	entered map[gopacket.LayerType]bool
}

func (s *c19State) one(t gopacket.LayerType, in []byte, how string) {
	c := s.c
	// an exact-capacity copy: a decoder that re-slices beyond len (within a larger capacity) would read bytes that are not
	// part of the input without any fault; with cap == len the same mistake is a slice-bounds panic
	b := make([]byte, len(in))
	copy(b, in)
	det := func() map[string]any {
		return map[string]any{"first_layer": t.String(), "input_hex": hx(b), "input_len": len(b), "mutation": how}
	}
	// (a) packet decoding with recovery switched off
	for m := 0; m < 4; m++ {
		o := gopacket.DecodeOptions{SkipDecodeRecovery: true, Lazy: m&1 != 0, DecodeStreamsAsDatagrams: m&2 != 0, NoCopy: true}
		if pi := vlib.Guard(func() {
			p := gopacket.NewPacket(b, t, o)
			p.Layers()
		}); pi != nil {
			c.Violation(pi.Key, fmt.Sprintf("NewPacket(%s, SkipDecodeRecovery) panicked at %s:%d: %s", t, pi.File, pi.Line, pi.Value), det())
			break
		}
		c.Evals(1)
	}
	// (b) the in-place decoding method, on a fresh and on a previously used object
	if dl := newDecodingLayer(t); dl != nil {
		var err error
		if pi := vlib.Guard(func() { err = dl.DecodeFromBytes(b, gopacket.NilDecodeFeedback) }); pi != nil {
			c.Violation(pi.Key, fmt.Sprintf("%s.DecodeFromBytes panicked at %s:%d: %s", t, pi.File, pi.Line, pi.Value), det())
		} else {
			if err == nil {
				s.entered[t] = true
				if m, ok := s.minOK[t]; !ok || len(b) < m {
					s.minOK[t] = len(b)
				}
				if pi := vlib.Guard(func() { dl.NextLayerType(); dl.CanDecode(); dl.LayerPayload() }); pi != nil {
					c.Violation(pi.Key, fmt.Sprintf("%s NextLayerType/CanDecode/LayerPayload panicked after a successful decode: %s", t, pi.Value), det())
				}
			}
			old := s.used[t]
			if old == nil {
				old = newDecodingLayer(t)
				s.used[t] = old
			}
			if pi := vlib.Guard(func() { old.DecodeFromBytes(b, gopacket.NilDecodeFeedback) }); pi != nil {
				c.Violation(pi.Key, fmt.Sprintf("%s.DecodeFromBytes on a previously used object panicked at %s:%d: %s", t, pi.File, pi.Line, pi.Value), det())
				s.used[t] = nil
			}
		}
		c.Evals(2)
		if m, ok := s.minOK[t]; ok && len(b) >= m {
			c.NonTrivial(vlib.Mix(uint64(t), vlib.HashBytes(b)))
		}
	}
	// (b') every other implementation of the in-place decoding interface that says it can decode this layer type
	for _, rt := range dlImpl[t] {
		if rt == dlTypes[t] {
			continue
		}
		dl, _ := reflect.New(rt).Interface().(gopacket.DecodingLayer)
		if dl == nil {
			continue
		}
		for round := 0; round < 2; round++ { // fresh, then the same object again
			if pi := vlib.Guard(func() {
				if dl.DecodeFromBytes(b, gopacket.NilDecodeFeedback) == nil {
					dl.NextLayerType()
					dl.LayerPayload()
				}
			}); pi != nil {
				c.Violation(pi.Key, fmt.Sprintf("%s.DecodeFromBytes panicked at %s:%d: %s", rt.Name(), pi.File, pi.Line, pi.Value), det())
				break
			}
		}
		c.Evals(1)
		c.Count("other_decoding_layer_implementations_exercised", 1)
	}
	// (c) a parser over every known decoding layer that lets panics through
	if s.parser != nil && dlTypes[t] != nil {
		var dec []gopacket.LayerType
		if pi := vlib.Guard(func() {
			p := gopacket.NewDecodingLayerParser(t)
			p.IgnorePanic = true
			p.IgnoreUnsupported = true
			p.SetDecodingLayerContainer(s.parserContainer())
			p.DecodeLayers(b, &dec)
		}); pi != nil {
			c.Violation(pi.Key, fmt.Sprintf("DecodingLayerParser(IgnorePanic) starting at %s panicked at %s:%d: %s", t, pi.File, pi.Line, pi.Value), det())
			s.rebuildParser()
		}
		c.Evals(1)
	}
}

var c19Container gopacket.DecodingLayerContainer

func (s *c19State) parserContainer() gopacket.DecodingLayerContainer { return c19Container }

func (s *c19State) rebuildParser() {
	var dlc gopacket.DecodingLayerContainer = gopacket.DecodingLayerMap(map[gopacket.LayerType]gopacket.DecodingLayer{})
	for _, t := range dlList {
		if dl := newDecodingLayer(t); dl != nil {
			vlib.Guard(func() { dlc = dlc.Put(dl) })
		}
	}
	c19Container = dlc
	s.parser = gopacket.NewDecodingLayerParser(gopacket.LayerTypePayload)
}

func c19NoRecover(c *vlib.Ctx) {
	cp := getCorpus()
	s := &c19State{c: c, used: map[gopacket.LayerType]gopacket.DecodingLayer{}, minOK: map[gopacket.LayerType]int{}, entered: map[gopacket.LayerType]bool{}}
	s.rebuildParser()
	perType := c.Pick(6000, 60000)
	idx := 0
	for ti, t := range cp.Types {
		if ti%c.NBatch != c.Batch {
			continue
		}
		// every prefix of the first seeds (exhaustive truncation)
		for si, seed := range cp.Seeds[t] {
			if si >= c.Pick(3, 12) {
				break
			}
			idx++
			if !c.Begin(idx) {
				continue
			}
			lim := len(seed)
			if lim > 400 {
				lim = 400
			}
			for n := 0; n <= lim; n++ {
				s.one(t, seed[:n], "prefix")
			}
			c.Count("prefixes_enumerated", lim+1)
			c.End()
		}
		// one flag bit of the header changed AND the input cut at every length: optional parts that a flag switches on
		// (pads, extra fields, trailers) meet every possible amount of remaining data
		for si, seed := range cp.Seeds[t] {
			if si >= c.Pick(2, 6) {
				break
			}
			idx++
			if !c.Begin(idx) {
				continue
			}
			bits := min(len(seed), c.Pick(24, 48)) * 8
			lim := min(len(seed), c.Pick(160, 400))
			b := append([]byte{}, seed...)
			for bit := 0; bit < bits; bit++ {
				b[bit/8] ^= 1 << (bit % 8)
				for n := bit/8 + 1; n <= lim; n++ {
					s.one(t, b[:n:n], "bit-flip+prefix")
				}
				b[bit/8] ^= 1 << (bit % 8)
				c.Step()
			}
			c.Count("bit_flip_prefix_variants", bits*lim)
			c.End()
		}
		// structure-aware variants of the first seeds: tail stretched with the covering length fields adjusted
		for si, seed := range cp.Seeds[t] {
			if si >= c.Pick(40, 400) {
				break
			}
			idx++
			if !c.Begin(idx) {
				continue
			}
			vs, hows := cp.Structural(seed)
			for i, b := range vs {
				s.one(t, b, hows[i])
			}
			c.Count("structural_variants", len(vs))
			// the heavy tiers take the first three seeds and then seeds spread evenly over the list (fixtures of one
			// protocol come in file order: hello, description, request, update, ... - the later message kinds count too)
			heavyN := c.Pick(16, 60)
			nSeeds := min(len(cp.Seeds[t]), c.Pick(40, 400))
			stride := max(1, (nSeeds-3)/max(1, heavyN-3))
			if si < 3 || ((si-3)%stride == 0 && (si-3)/stride < heavyN-3) {
				sh := cp.Shrinks(seed, c.Pick(200, 1200))
				for _, b := range sh {
					s.one(t, b, "shrink-region")
				}
				c.Count("shrink_variants", len(sh))
				sw := cp.ByteSweepWide(seed, c.Pick(200, 1500))
				for _, b := range sw {
					s.one(t, b, "byte-sweep")
				}
				c.Count("byte_sweep_variants", len(sw))
				sr := cp.ByteSweepRel(seed, c.Pick(200, 1500))
				for _, b := range sr {
					s.one(t, b, "byte-sweep-relative")
				}
				c.Count("byte_sweep_relative_variants", len(sr))
				ws := cp.WordSweep(seed, c.Pick(200, 1500))
				for _, b := range ws {
					s.one(t, b, "word-sweep")
				}
				c.Count("word_sweep_variants", len(ws))
				for _, b := range cp.LongRepeats(c.Rand(uint64(t), uint64(si), 99), seed, c.Pick(10, 60), 2*65536+300) {
					s.one(t, b, "long-repeat")
				}
				for _, b := range cp.BigStretch(seed) {
					s.one(t, b, "big-stretch")
				}
				tv := cp.TextVariants(seed, c.Pick(1500, 6000))
				for _, b := range tv {
					s.one(t, b, "text-line-variant")
				}
				c.Count("text_line_variants", len(tv))
				if si < c.Pick(2, 8) {
					wl := cp.WordSweepLong(seed, c.Pick(40, 200))
					for _, b := range wl {
						s.one(t, b, "word-sweep-long")
						c.Step()
					}
					c.Count("word_sweep_long_variants", len(wl))
				}
			}
			c.End()
		}
		chunk := 100
		for k := 0; k < perType; k += chunk {
			idx++
			if !c.Begin(idx) {
				continue
			}
			r := c.Rand(uint64(t), uint64(k))
			for j := 0; j < chunk; j++ {
				b, how := cp.Input(r, t)
				if len(b) > 65536 {
					b = b[:65536]
				}
				s.one(t, b, how)
			}
			c.End()
		}
		c.CountIn("inputs_per_layer_type", t.String(), perType)
		if c.WantSample() && len(cp.Seeds[t]) > 0 {
			c.Sample(map[string]any{"layer_type": t.String(), "seed_hex": hx(cp.Seeds[t][0][:min(len(cp.Seeds[t][0]), 80)])})
		}
	}
	idx++
	if c.Begin(idx) {
		never := 0
		for ti, t := range cp.Types {
			if ti%c.NBatch == c.Batch && dlTypes[t] != nil && !s.entered[t] {
				never++
				c.CountIn("decoding_layers_never_entered", t.String(), 1)
			}
		}
		c.Count("decoding_layer_types_known", len(dlList)/max(1, c.NBatch))
		for k, v := range cp.Stats {
			if c.Batch == 0 {
				c.Count("corpus_"+k, v)
			}
		}
		c.End()
	}
}
