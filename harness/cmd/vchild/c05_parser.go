package main

import (
	"bytes"
	"fmt"
	"reflect"
	"strings"

	"github.com/gopacket/gopacket"
	"github.com/gopacket/gopacket/layers"

	"verif/harness/internal/corpus"
	"verif/harness/internal/sig"
	"verif/harness/internal/vlib"
)

func init() {
	vlib.Register("C05", "parser", c05Parser)
	vlib.Register("C05", "stale", c05Stale)
}

// the decoding layers of the common link/network/transport/application stack
var c05Core = []gopacket.LayerType{
	layers.LayerTypeEthernet, layers.LayerTypeDot1Q, layers.LayerTypeIPv4, layers.LayerTypeIPv6, layers.LayerTypeTCP, layers.LayerTypeUDP,
	layers.LayerTypeICMPv4, layers.LayerTypeICMPv6, layers.LayerTypeDNS, layers.LayerTypeARP, layers.LayerTypeGRE, layers.LayerTypeVXLAN,
	layers.LayerTypeLLC, layers.LayerTypeSNAP, gopacket.LayerTypePayload,
}

func c05New(t gopacket.LayerType) gopacket.DecodingLayer {
	switch t {
	case layers.LayerTypeEthernet:
		return &layers.Ethernet{}
	case layers.LayerTypeDot1Q:
		return &layers.Dot1Q{}
	case layers.LayerTypeIPv4:
		return &layers.IPv4{}
	case layers.LayerTypeIPv6:
		return &layers.IPv6{}
	case layers.LayerTypeTCP:
		return &layers.TCP{}
	case layers.LayerTypeUDP:
		return &layers.UDP{}
	case layers.LayerTypeICMPv4:
		return &layers.ICMPv4{}
	case layers.LayerTypeICMPv6:
		return &layers.ICMPv6{}
	case layers.LayerTypeDNS:
		return &layers.DNS{}
	case layers.LayerTypeARP:
		return &layers.ARP{}
	case layers.LayerTypeGRE:
		return &layers.GRE{}
	case layers.LayerTypeVXLAN:
		return &layers.VXLAN{}
	case layers.LayerTypeLLC:
		return &layers.LLC{}
	case layers.LayerTypeSNAP:
		return &layers.SNAP{}
	case gopacket.LayerTypePayload:
		return &gopacket.Payload{}
	}
	return newDecodingLayer(t)
}

// customContainer is a user-written DecodingLayerContainer: it takes the generic path of LayersDecoder.
type customContainer struct {
	m map[gopacket.LayerType]gopacket.DecodingLayer
}

func (c customContainer) Put(d gopacket.DecodingLayer) gopacket.DecodingLayerContainer {
	for _, t := range d.CanDecode().LayerTypes() {
		c.m[t] = d
	}
	return c
}
func (c customContainer) Decoder(t gopacket.LayerType) (gopacket.DecodingLayer, bool) {
	d, ok := c.m[t]
	return d, ok
}
func (c customContainer) LayersDecoder(first gopacket.LayerType, df gopacket.DecodeFeedback) gopacket.DecodingLayerFunc {
	return gopacket.LayersDecoder(c, first, df)
}

var c05ContainerNames = []string{"map", "sparse", "array", "custom", "constructor-default", "add-decoding-layer"}

func c05Container(kind int) gopacket.DecodingLayerContainer {
	switch kind {
	case 0:
		return gopacket.DecodingLayerMap(map[gopacket.LayerType]gopacket.DecodingLayer{})
	case 1:
		return gopacket.DecodingLayerSparse(nil)
	case 2:
		return gopacket.DecodingLayerArray(nil)
	}
	return customContainer{m: map[gopacket.LayerType]gopacket.DecodingLayer{}}
}

type c05Set struct {
	decoys bool // register a first object for every other type before the real one (replacement must work)
	types  []gopacket.LayerType
	objs   map[gopacket.LayerType]gopacket.DecodingLayer
	in     map[gopacket.LayerType]bool
}

func c05MakeSet(types []gopacket.LayerType) *c05Set {
	s := &c05Set{types: types, objs: map[gopacket.LayerType]gopacket.DecodingLayer{}, in: map[gopacket.LayerType]bool{}}
	for _, t := range types {
		if d := c05New(t); d != nil {
			s.objs[t] = d
			for _, ct := range d.CanDecode().LayerTypes() {
				s.in[ct] = true
			}
		}
	}
	return s
}

func (s *c05Set) parser(first gopacket.LayerType, kind int) *gopacket.DecodingLayerParser {
	// kinds 4 and 5 use the parser's own default container the way most callers do: layers handed to the constructor, or
	// added one by one afterwards (no SetDecodingLayerContainer call, which would rebuild the decoding function)
	if kind >= 4 {
		var ls []gopacket.DecodingLayer
		if s.decoys {
			for i, t := range s.types {
				if i%2 == 0 {
					if d := c05New(t); d != nil {
						ls = append(ls, d)
					}
				}
			}
		}
		for _, t := range s.types {
			if d := s.objs[t]; d != nil {
				ls = append(ls, d)
			}
		}
		if kind == 4 {
			return gopacket.NewDecodingLayerParser(first, ls...)
		}
		p := gopacket.NewDecodingLayerParser(first)
		for _, d := range ls {
			p.AddDecodingLayer(d)
		}
		return p
	}
	p := gopacket.NewDecodingLayerParser(first)
	dlc := c05Container(kind)
	if s.decoys {
		// register other objects for some of the types first: the objects registered last replace them in every
		// container ("whichever container is used"), so the values must still arrive in s.objs
		for i, t := range s.types {
			if i%2 == 0 {
				if d := c05New(t); d != nil {
					dlc = dlc.Put(d)
				}
			}
		}
	}
	for _, t := range s.types {
		if d := s.objs[t]; d != nil {
			dlc = dlc.Put(d)
		}
	}
	p.SetDecodingLayerContainer(dlc)
	return p
}

func isErrLayer(l gopacket.Layer) bool {
	_, ok := l.(gopacket.ErrorLayer)
	return ok || l.LayerType() == gopacket.LayerTypeDecodeFailure
}

func c05Compare(c *vlib.Ctx, first gopacket.LayerType, b []byte, set *c05Set, kind int, how string) (n int, ok bool) {
	det := func() map[string]any {
		var ts []string
		for _, t := range set.types {
			ts = append(ts, t.String())
		}
		return map[string]any{"first_layer": first.String(), "input_hex": hx(b), "mutation": how, "layer_set": strings.Join(ts, ","), "container": c05ContainerNames[kind]}
	}
	// the slice the caller passes is reused from packet to packet (as in the package documentation): it arrives holding
	// the previous packet's layers, which must not show in this packet's result however the decode ends
	dec := []gopacket.LayerType{gopacket.LayerTypePayload, gopacket.LayerTypeFragment, gopacket.LayerTypePayload}
	var perr error
	ps := set.parser(first, kind)
	if pi := vlib.Guard(func() { perr = ps.DecodeLayers(b, &dec) }); pi != nil {
		return 0, false
	}
	var pkt gopacket.Packet
	if pi := vlib.Guard(func() {
		pkt = gopacket.NewPacket(b, first, gopacket.DecodeOptions{NoCopy: true, DecodeStreamsAsDatagrams: true})
		pkt.Layers()
	}); pi != nil {
		return 0, false
	}
	L := pkt.Layers()
	for _, l := range L {
		// packet decoding presents the hop-by-hop header as a layer of its own, the IPv6 decoding layer keeps it inside IPv6:
		// a documented structural difference, such packets are not comparable layer by layer
		if l.LayerType() == layers.LayerTypeIPv6HopByHop {
			c.Count("skipped_ipv6_hop_by_hop_packets", 1)
			return len(dec), true
		}
	}
	k := len(L)
	for i, l := range L {
		if isErrLayer(l) || !set.in[l.LayerType()] {
			k = i
			break
		}
	}
	n = len(dec)
	okRun := n == k
	if !okRun && n == k-1 && k < len(L) && isErrLayer(L[k]) {
		// some decode functions add their half-decoded layer before returning the error; the parser reports the error instead
		_, unsupported := perr.(gopacket.UnsupportedLayerType)
		if perr != nil && !unsupported {
			if dl := c05New(L[k-1].LayerType()); dl != nil {
				in := b
				if k-1 > 0 {
					in = L[k-2].LayerPayload()
				}
				var e error
				if pi := vlib.Guard(func() { e = dl.DecodeFromBytes(in, gopacket.NilDecodeFeedback) }); pi == nil && e != nil {
					okRun = true // the same decode method fails on its own on these bytes: the layer in the packet is the half-decoded one
				}
			}
		}
	}
	if !okRun {
		var lt []string
		for _, l := range L {
			lt = append(lt, l.LayerType().String())
		}
		where := "end"
		if n < len(L) {
			where = L[min(n, len(L)-1)].LayerType().String()
		}
		c.Violation("parser-run-differs:at-"+strings.ReplaceAll(where, " ", "_"), fmt.Sprintf("the parser reports %v (err=%v), packet decoding gives %v; expected the leading run of %d layers", dec, perr, lt, k), det())
		return n, false
	}
	last := map[gopacket.LayerType]int{}
	for i, t := range dec {
		last[t] = i
	}
	// when the parser stopped with an error, the decoder that failed has already written into its (single) object
	var polluted gopacket.DecodingLayer
	if _, unsupported := perr.(gopacket.UnsupportedLayerType); perr != nil && !unsupported {
		nt := first
		if n > 0 {
			// asked of the packet's own (separate) layer object: the parser's object of that type may be the overwritten one
			if d, ok := L[n-1].(gopacket.DecodingLayer); ok {
				vlib.Guard(func() { nt = d.NextLayerType() })
			} else if d := set.objs[dec[n-1]]; d != nil {
				nt = d.NextLayerType()
			}
		}
		if n < len(L) && !isErrLayer(L[n]) {
			nt = L[n].LayerType() // the half-decoded layer that the packet keeps names the decoder that failed
		}
		for _, d := range set.objs {
			if d.CanDecode().Contains(nt) {
				polluted = d
			}
		}
	}
	for i := 0; i < n && i < len(L); i++ {
		if dec[i] != L[i].LayerType() {
			c.Violation("parser-layer-type-differs", fmt.Sprintf("layer %d: parser %s, packet %s", i, dec[i], L[i].LayerType()), det())
			return n, false
		}
		if last[dec[i]] != i {
			continue // an earlier occurrence of a repeated type was overwritten in the single preallocated object (QinQ, IP-in-IP)
		}
		obj := set.objs[dec[i]]
		if obj == nil {
			for _, d := range set.objs {
				if d.CanDecode().Contains(dec[i]) {
					obj = d
				}
			}
		}
		if reflect.TypeOf(obj) != reflect.TypeOf(L[i]) {
			continue
		}
		if polluted != nil && reflect.TypeOf(obj) == reflect.TypeOf(polluted) {
			continue // the decode that failed afterwards used (and overwrote) this very object
		}
		if sig.Exported(obj) != sig.Exported(L[i]) {
			path, desc := sig.ExportedDiff(obj, L[i])
			c.Violation("parser-fields-differ:"+strings.ReplaceAll(dec[i].String(), " ", "_")+":"+path, fmt.Sprintf("layer %d (%s) decoded by the parser differs from the packet's layer: %s", i, dec[i], desc), det())
			return n, false
		}
	}
	pt := pkt.Metadata().Truncated
	if ps.Truncated && !pt {
		c.Violation("parser-truncated-but-packet-not", "the parser sets Truncated, packet decoding does not", det())
		return n, false
	}
	// the converse only when the parser ran every decoder the packet ran: an error layer may come from a decoder outside the
	// set, whose SetTruncated the parser never sees
	covers := n == len(L)
	if !covers && n == len(L)-1 && isErrLayer(L[n]) && perr != nil {
		// the packet ends in the failure of the very decoder that also failed in the parser (an error other than "no decoder
		// in the set"): both ran the same decoders on the same bytes, so a truncation the failing decoder reports to the
		// packet must reach the parser's flag too
		if _, unsupported := perr.(gopacket.UnsupportedLayerType); !unsupported && !strings.HasPrefix(perr.Error(), "panic:") {
			covers = true
			c.Count("failing_decoder_truncation_compared", 1)
		}
	}
	if pt && !ps.Truncated && covers {
		c.Violation("packet-truncated-but-parser-not", "packet decoding marks the packet truncated, the parser (which decoded every layer) does not", det())
		return n, false
	}
	return n, true
}

func c05Parser(c *vlib.Ctx) {
	cp := getCorpus()
	n := c.Pick(6000, 120000)
	chunk := 100
	eth := gopacket.LayerType(layers.LayerTypeEthernet)
	// thorough: all subsets of the 8 core layers, enumerated round robin
	core8 := c05Core[:8]
	for k := 0; k*chunk < n; k++ {
		if !c.Begin(k) {
			continue
		}
		r := c.Rand(uint64(k))
		for j := 0; j < chunk; j++ {
			var b []byte
			how := "constructed"
			first := eth
			switch r.Intn(4) {
			case 0:
				b = corpus.ConstructedOne(r)
			case 1:
				b, how = cp.Mutate(r, corpus.ConstructedOne(r))
			case 2:
				b, how = cp.Input(r, eth)
			default:
				first = c05Core[r.Intn(len(c05Core)-1)]
				b, how = cp.Input(r, first)
			}
			if len(b) > 8192 {
				b = b[:8192]
			}
			var types []gopacket.LayerType
			if !c.Quick() && r.Chance(1, 2) {
				mask := (k*chunk + j) % 256
				for i, t := range core8 {
					if mask&(1<<i) != 0 {
						types = append(types, t)
					}
				}
				types = append(types, gopacket.LayerTypePayload)
			} else {
				for _, t := range c05Core {
					if r.Chance(3, 4) {
						types = append(types, t)
					}
				}
			}
			set := c05MakeSet(types)
			set.decoys = r.Chance(1, 3)
			if set.decoys {
				c.Count("sets_with_replaced_registrations", 1)
			}
			var ref string
			for kind := 0; kind < len(c05ContainerNames); kind++ {
				if kind > 0 {
					// fresh objects per container: values left by the previous container's run must not stand in for
					// values this container failed to deliver
					decoys := set.decoys
					set = c05MakeSet(types)
					set.decoys = decoys
				}
				nl, ok := c05Compare(c, first, b, set, kind, how)
				c.Evals(1)
				if !ok {
					break
				}
				if kind == 0 && nl >= 2 {
					c.NonTrivial(vlib.Mix(uint64(first), vlib.HashBytes(b), vlib.HashString(fmt.Sprint(types))))
				}
				// (3) the containers agree with each other
				var dec []gopacket.LayerType
				ps := set.parser(first, kind)
				var perr error
				vlib.Guard(func() { perr = ps.DecodeLayers(b, &dec) })
				cur := fmt.Sprint(dec, perr, ps.Truncated)
				if kind == 0 {
					ref = cur
				} else if cur != ref {
					c.Violation("containers-disagree:"+c05ContainerNames[kind], fmt.Sprintf("container %s gives %s, the map container %s", c05ContainerNames[kind], cur, ref), map[string]any{"input_hex": hx(b), "first_layer": first.String()})
					break
				}
			}
			c.Count("parser_comparisons", 1)
		}
		if c.WantSample() {
			c.Sample(map[string]any{"containers": c05ContainerNames, "core_layers": fmt.Sprint(c05Core)})
		}
		c.End()
	}
	// every other layer type that offers in-place decoding, one decoder at a time: a parser holding only that layer against
	// packet decoding from that layer type. Judged where both ran exactly the same decoder: the
	// truncation flag (a decoder that reports a short input to the packet must report it to the parser's flag as well).
	base := (n + chunk - 1) / chunk
	var dts []gopacket.LayerType
	for _, t := range cp.Types {
		if _, ok := dlTypes[t]; ok {
			dts = append(dts, t)
		}
	}
	for ti, t := range dts {
		if !c.Begin(base + 1 + ti) {
			continue
		}
		r := c.Rand(uint64(t), 555)
		var ins [][]byte
		for i := 0; i < c.Pick(150, 1500); i++ {
			b, _ := cp.Input(r, t)
			ins = append(ins, b)
		}
		for si, seed := range cp.Seeds[t] {
			if si >= 3 {
				break
			}
			for k := 0; k <= len(seed) && k <= c.Pick(96, 400); k++ {
				ins = append(ins, seed[:k])
			}
		}
		for _, b := range ins {
			if len(b) > 8192 {
				b = b[:8192]
			}
			dl := newDecodingLayer(t)
			if dl == nil {
				break
			}
			ps := gopacket.NewDecodingLayerParser(t, dl)
			ps.IgnoreUnsupported = true
			dec := []gopacket.LayerType{gopacket.LayerTypePayload}
			var perr error
			if pi := vlib.Guard(func() { perr = ps.DecodeLayers(b, &dec) }); pi != nil {
				continue
			}
			var pkt gopacket.Packet
			if pi := vlib.Guard(func() {
				pkt = gopacket.NewPacket(b, t, gopacket.DecodeOptions{NoCopy: true, DecodeStreamsAsDatagrams: true})
				pkt.Layers()
			}); pi != nil {
				continue
			}
			L := pkt.Layers()
			c.Evals(1)
			if len(L) == 0 || (perr != nil && strings.HasPrefix(perr.Error(), "panic:")) {
				continue
			}
			det := map[string]any{"first_layer": t.String(), "input_hex": hx(b), "parser_error": fmt.Sprint(perr), "packet_layers": fmt.Sprint(layerTypes(L))}
			pktFailedFirst := isErrLayer(L[0])
			// "the same decoder ran": either the packet holds just this layer, of the very struct type the parser used (and
			// undecoded payload), or both failed at once with the same error text (decode functions that dispatch to another
			// struct by version or length - IGMP, OSPF, AGUE - fail with their own messages and are not compared)
			same := false
			if pktFailedFirst && perr != nil {
				if e, ok := L[0].(gopacket.ErrorLayer); ok && e.Error() != nil && e.Error().Error() == perr.Error() {
					same = true
				}
			}
			if !pktFailedFirst && perr == nil && reflect.TypeOf(L[0]) == reflect.TypeOf(dl) && (len(L) == 1 || (len(L) == 2 && L[1].LayerType() == gopacket.LayerTypePayload)) {
				same = true
			}
			if same && len(b) > 0 {
				c.Count("single_decoder_truncation_flags_compared", 1)
				if pt := pkt.Metadata().Truncated; pt != ps.Truncated {
					c.Violation("single-decoder:truncation-flag-differs:"+typeKey(t), fmt.Sprintf("the %s decoder alone: parser Truncated=%v, packet Truncated=%v", t, ps.Truncated, pt), det)
				}
			}
		}
		c.End()
	}
	// negative layer types (only reachable with custom layer types) must not crash the lookup containers
	if c.Batch == 0 && c.Begin(1<<29) {
		for kind := 0; kind < 4; kind++ {
			if pi := vlib.Guard(func() {
				dlc := c05Container(kind)
				dlc = dlc.Put(&layers.Ethernet{})
				dlc.Decoder(gopacket.LayerType(-5))
				dlc.Decoder(gopacket.LayerType(1 << 40))
			}); pi != nil {
				c.Violation("container-lookup-panics:"+c05ContainerNames[kind], "Decoder() of a lookup container panicked for an unusual layer type: "+pi.Value, nil)
			}
		}
		c.End()
	}
}

// c05Stale: decoding a sequence of packets into the same layer objects gives, for every packet, what fresh objects give.
func c05Stale(c *vlib.Ctx) {
	cp := getCorpus()
	n := c.Pick(4000, 80000)
	chunk := 100
	eth := gopacket.LayerType(layers.LayerTypeEthernet)
	for k := 0; k*chunk < n; k++ {
		if !c.Begin(k) {
			continue
		}
		r := c.Rand(uint64(k))
		kind := r.Intn(len(c05ContainerNames))
		reused := c05MakeSet(c05Core)
		rp := reused.parser(eth, kind)
		var d1 []gopacket.LayerType // reused along the sequence, as the layer objects are
		for j := 0; j < chunk; j++ {
			var b []byte
			how := "constructed"
			switch r.Intn(5) {
			case 0, 1:
				b = corpus.ConstructedOne(r)
			case 2:
				b, how = cp.Mutate(r, corpus.ConstructedOne(r))
			default:
				b, how = cp.Input(r, eth)
			}
			if len(b) > 8192 {
				b = b[:8192]
			}
			fresh := c05MakeSet(c05Core)
			fp := fresh.parser(eth, kind)
			var d2 []gopacket.LayerType
			var e1, e2 error
			if pi := vlib.Guard(func() { e1 = rp.DecodeLayers(b, &d1) }); pi != nil {
				reused = c05MakeSet(c05Core)
				rp = reused.parser(eth, kind)
				continue
			}
			if pi := vlib.Guard(func() { e2 = fp.DecodeLayers(b, &d2) }); pi != nil {
				continue
			}
			c.Evals(1)
			det := map[string]any{"input_hex": hx(b), "mutation": how, "container": c05ContainerNames[kind], "position_in_sequence": j}
			if fmt.Sprint(d1, e1, rp.Truncated) != fmt.Sprint(d2, e2, fp.Truncated) {
				c.Violation("reused-objects-change-result", fmt.Sprintf("decoding into previously used layer objects gives %v err=%v truncated=%v, into fresh objects %v err=%v truncated=%v", d1, e1, rp.Truncated, d2, e2, fp.Truncated), det)
				continue
			}
			last := map[gopacket.LayerType]int{}
			for i, t := range d1 {
				last[t] = i
			}
			for t := range last {
				a, f := reused.objs[t], fresh.objs[t]
				if a == nil || f == nil {
					continue
				}
				if sig.Exported(a) != sig.Exported(f) {
					path, desc := sig.ExportedDiff(a, f)
					c.Violation("stale-state:"+strings.ReplaceAll(t.String(), " ", "_")+":"+path, fmt.Sprintf("%s decoded into a previously used object differs from the same bytes decoded into a fresh object: %s", t, desc), det)
				}
				// flows are served from unexported caches: compare them through their accessors
				if x, ok := a.(interface{ TransportFlow() gopacket.Flow }); ok && x.TransportFlow() != f.(interface{ TransportFlow() gopacket.Flow }).TransportFlow() {
					c.Violation("stale-state:"+t.String()+":TransportFlow", "TransportFlow() of a reused layer object differs from a fresh one", det)
				}
				if x, ok := a.(interface{ NetworkFlow() gopacket.Flow }); ok && x.NetworkFlow() != f.(interface{ NetworkFlow() gopacket.Flow }).NetworkFlow() {
					c.Violation("stale-state:"+t.String()+":NetworkFlow", "NetworkFlow() of a reused layer object differs from a fresh one", det)
				}
			}
			if len(d1) >= 2 {
				c.NonTrivial(vlib.HashBytes(b))
			}
			c.Count("reuse_comparisons", 1)
		}
		c.End()
	}
	// every other layer type that offers in-place decoding: one object reused along a sequence of its own inputs against
	// a fresh object per input (DecodeFromBytes called directly, as a parser does)
	base := (n + chunk - 1) / chunk
	var dts []gopacket.LayerType
	for _, t := range cp.Types {
		if _, ok := dlTypes[t]; ok {
			dts = append(dts, t)
		}
	}
	for ti, t := range dts {
		if !c.Begin(base + 1 + ti) {
			continue
		}
		r := c.Rand(uint64(t), 777)
		reused := newDecodingLayer(t)
		cnt := 0
		for j := 0; j < c.Pick(300, 3000) && reused != nil; j++ {
			b, how := cp.Input(r, t)
			if len(b) > 8192 {
				b = b[:8192]
			}
			fresh := newDecodingLayer(t)
			var e1, e2 error
			if pi := vlib.Guard(func() { e1 = reused.DecodeFromBytes(b, gopacket.NilDecodeFeedback) }); pi != nil {
				reused = newDecodingLayer(t)
				continue
			}
			if pi := vlib.Guard(func() { e2 = fresh.DecodeFromBytes(b, gopacket.NilDecodeFeedback) }); pi != nil {
				continue
			}
			c.Evals(1)
			det := map[string]any{"layer": t.String(), "input_hex": hx(b), "mutation": how, "position_in_sequence": j}
			if (e1 == nil) != (e2 == nil) {
				c.Violation("stale-state:single:"+typeKey(t)+":error", fmt.Sprintf("%s.DecodeFromBytes into a previously used object returns err=%v, into a fresh object err=%v", t, e1, e2), det)
				reused = newDecodingLayer(t)
				continue
			}
			if e1 != nil {
				reused = newDecodingLayer(t) // what a failed decode leaves behind is not a result
				continue
			}
			cnt++
			if sig.Exported(reused) != sig.Exported(fresh) {
				path, desc := sig.ExportedDiff(reused, fresh)
				c.Violation("stale-state:single:"+typeKey(t)+":"+path, fmt.Sprintf("%s decoded into a previously used object differs from the same bytes decoded into a fresh object: %s", t, desc), det)
				reused = newDecodingLayer(t)
				continue
			}
			var nt1, nt2 gopacket.LayerType
			var p1, p2 []byte
			vlib.Guard(func() { nt1, p1 = reused.NextLayerType(), reused.LayerPayload() })
			vlib.Guard(func() { nt2, p2 = fresh.NextLayerType(), fresh.LayerPayload() })
			if nt1 != nt2 || !bytes.Equal(p1, p2) {
				c.Violation("stale-state:single:"+typeKey(t)+":next-layer-or-payload", fmt.Sprintf("%s decoded into a previously used object: next layer %v / %d payload bytes, fresh object %v / %d", t, nt1, len(p1), nt2, len(p2)), det)
				reused = newDecodingLayer(t)
			}
		}
		c.Count("single_layer_reuse_comparisons", cnt)
		c.End()
	}
}

func layerTypes(L []gopacket.Layer) (out []gopacket.LayerType) {
	for _, l := range L {
		out = append(out, l.LayerType())
	}
	return
}
