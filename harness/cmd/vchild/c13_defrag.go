package main

import (
	"bytes"
	"encoding/hex"
	"fmt"
	"time"

	"github.com/gopacket/gopacket"
	"github.com/gopacket/gopacket/ip4defrag"
	"github.com/gopacket/gopacket/ip6defrag"
	"github.com/gopacket/gopacket/layers"

	"verif/harness/internal/pk"
	"verif/harness/internal/vlib"
)

func init() {
	vlib.Register("C13", "benign", c13Benign)
	vlib.Register("C13", "hostile", c13Hostile)
	vlib.Register("C13", "v6", c13V6)
}

// frag is one IPv4 fragment of a datagram, described at wire level.
type frag struct {
	key    int // index of the datagram (benign) / key (hostile)
	idx    int // index inside the partition
	off    int // byte offset (multiple of 8)
	data   []byte
	more   bool
	optLen int
	df     bool
	evil   bool // the reserved flag bit: says nothing about fragmentation
}

type dgram struct {
	src, dst [4]byte
	id       uint16
	proto    uint8
	payload  []byte
	frags    []frag
	opt1     int // options bytes on the first fragment
	optN     int // options bytes on the others (copied options only)
}

var c13Base = time.Unix(1_700_000_000, 0)

func c13Wire(d *dgram, f frag, r *vlib.Rand) []byte {
	var opts []byte
	if f.optLen > 0 {
		// NOPs followed by one real option when there is room, then padding with EOL
		opts = make([]byte, f.optLen)
		for i := range opts {
			opts[i] = 1
		}
		if f.optLen >= 4 {
			opts[0], opts[1] = 0x94, 4 // router alert (copied)
		}
	}
	fl := uint8(0)
	if f.more {
		fl |= 1
	}
	if f.df {
		fl |= 2
	}
	if f.evil {
		fl |= 4
	}
	return pk.IPv4(pk.IPv4H{TOS: 0, ID: d.id, Flags: fl, FragOff: uint16(f.off / 8), TTL: 64, Proto: d.proto, Src: d.src, Dst: d.dst, Options: opts}, f.data)
}

func c13Decode(b []byte) (*layers.IPv4, error) {
	ip := &layers.IPv4{}
	err := ip.DecodeFromBytes(b, gopacket.NilDecodeFeedback)
	return ip, err
}

// c13Partition cuts payload into n fragments at 8-byte boundaries.
func c13Partition(r *vlib.Rand, d *dgram, n int) {
	L := len(d.payload)
	units := (L + 7) / 8
	if n > units {
		n = units
	}
	if n < 1 {
		n = 1
	}
	cuts := map[int]bool{}
	for len(cuts) < n-1 {
		cuts[r.Range(1, units-1)*8] = true
	}
	pts := []int{0}
	for u := 1; u < units; u++ {
		if cuts[u*8] {
			pts = append(pts, u*8)
		}
	}
	pts = append(pts, L)
	d.frags = nil
	for i := 0; i+1 < len(pts); i++ {
		ol := d.optN
		if i == 0 {
			ol = d.opt1
		}
		d.frags = append(d.frags, frag{idx: i, off: pts[i], data: d.payload[pts[i]:pts[i+1]], more: i+2 < len(pts), optLen: ol})
	}
}

func c13NewDgram(r *vlib.Rand, key int, L int, withOpts bool) *dgram {
	d := &dgram{src: pk.A4(r.Bytes(4)), dst: pk.A4(r.Bytes(4)), id: r.U16(), proto: 17, payload: r.Bytes(L)}
	if withOpts {
		d.opt1 = 4 * r.Range(0, 10)
		d.optN = 4 * r.Range(0, d.opt1/4)
	}
	return d
}

type c13Check struct {
	c      *vlib.Ctx
	detail func() any
}

// checkResult validates a completed datagram against the original.
func c13CheckComplete(c *vlib.Ctx, out *layers.IPv4, d *dgram, detail func() any) {
	switch {
	case !bytes.Equal(out.Payload, d.payload):
		c.Violation("complete-payload-differs", fmt.Sprintf("reassembled payload (%d bytes) differs from the original (%d bytes), first difference at %d", len(out.Payload), len(d.payload), firstDiff(out.Payload, d.payload)), detail())
	case out.Flags&layers.IPv4MoreFragments != 0 || out.FragOffset != 0:
		c.Violation("complete-fragment-fields-set", fmt.Sprintf("reassembled datagram has Flags=%v FragOffset=%d", out.Flags, out.FragOffset), detail())
	case int(out.Length) != int(out.IHL)*4+len(out.Payload):
		c.Violation("complete-length-inconsistent", fmt.Sprintf("reassembled datagram Length=%d but 4*IHL+len(Payload)=%d+%d", out.Length, int(out.IHL)*4, len(out.Payload)), detail())
	case out.Id != d.id || !bytes.Equal(out.SrcIP.To4(), d.src[:]) || !bytes.Equal(out.DstIP.To4(), d.dst[:]) || uint8(out.Protocol) != d.proto:
		c.Violation("complete-header-differs", "reassembled datagram has another id/src/dst/protocol than its fragments", detail())
	}
}

func c13Benign(c *vlib.Ctx) {
	n := c.Pick(1500, 25000)
	big := c.Pick(3, 30)
	for i := 0; i < n+big; i++ {
		if !c.Begin(i) {
			continue
		}
		r := c.Rand(uint64(i))
		nk := r.Range(1, 4)
		var ds []*dgram
		withOpts := r.Chance(1, 2)
		for k := 0; k < nk; k++ {
			L := r.Range(8, 3000)
			if r.Chance(1, 4) {
				L = r.Range(8, 200)
			}
			if i >= n && k == 0 {
				L = 65515 - r.Intn(3)*8 - 40 // near the maximum that fits with a 60 byte header
				if !withOpts {
					L = 65515
				}
			}
			d := c13NewDgram(r, k, L, withOpts)
			if k > 0 && r.Chance(1, 3) { // keys that differ only in id, or only in src
				d.src, d.dst, d.id = ds[0].src, ds[0].dst, ds[0].id+uint16(k)
			} else if k > 0 && r.Chance(1, 3) {
				d.dst, d.id = ds[0].dst, ds[0].id
				d.src[3] ^= byte(k)
			} else if k == 1 && r.Chance(1, 2) {
				// the reply direction with the same identification (the two hosts swapped), or the same addresses and
				// identification under another protocol: separate datagrams by RFC 791's (src, dst, protocol, id)
				if r.Bool() {
					d.src, d.dst, d.id = ds[0].dst, ds[0].src, ds[0].id
				} else {
					d.src, d.dst, d.id, d.proto = ds[0].src, ds[0].dst, ds[0].id, 6
				}
			}
			nf := r.Range(2, 8)
			if i >= n && k == 0 {
				nf = r.Range(2, 60)
			}
			c13Partition(r, d, nf)
			for j := range d.frags {
				d.frags[j].key = k
			}
			ds = append(ds, d)
		}
		// arrival order: all fragments of all keys, permuted, with exact duplicates inserted
		var seq []frag
		for _, d := range ds {
			seq = append(seq, d.frags...)
		}
		switch r.Intn(4) {
		case 0: // in order per key, keys interleaved round-robin
		case 1: // reversed
			for a, b := 0, len(seq)-1; a < b; a, b = a+1, b-1 {
				seq[a], seq[b] = seq[b], seq[a]
			}
		default:
			p := r.Perm(len(seq))
			s2 := make([]frag, len(seq))
			for a, b := range p {
				s2[a] = seq[b]
			}
			seq = s2
		}
		ndup := r.Intn(4)
		for k := 0; k < ndup; k++ {
			src := r.Intn(len(seq))
			dst := r.Intn(len(seq) + 1)
			f := seq[src]
			seq = append(seq[:dst], append([]frag{f}, seq[dst:]...)...)
		}
		// unfragmented / DF packets mixed in
		npass := r.Intn(3)
		for k := 0; k < npass; k++ {
			dst := r.Intn(len(seq) + 1)
			f := frag{key: -1, data: r.Bytes(r.Range(0, 64)), df: r.Bool(), optLen: 4 * r.Intn(3), evil: r.Chance(1, 3)}
			seq = append(seq[:dst], append([]frag{f}, seq[dst:]...)...)
		}
		c13RunBenign(c, r, ds, seq, i)
		c.End()
	}
	// exhaustive permutations for small fragment counts
	base := n + big
	for nf := 2; nf <= c.Pick(5, 6); nf++ {
		if !c.Begin(base + nf) {
			continue
		}
		r := c.Rand(uint64(base + nf))
		for _, withOpts := range []bool{false, true} {
			d := c13NewDgram(r, 0, nf*16+r.Intn(8), withOpts)
			c13Partition(r, d, nf)
			if len(d.frags) != nf {
				continue
			}
			perm := make([]int, nf)
			for k := range perm {
				perm[k] = k
			}
			cnt := 0
			var rec func(k int)
			rec = func(k int) {
				if k == nf {
					seq := make([]frag, nf)
					for a, b := range perm {
						seq[a] = d.frags[b]
					}
					c13RunBenign(c, r, []*dgram{d}, seq, base+nf)
					cnt++
					return
				}
				for j := k; j < nf; j++ {
					perm[k], perm[j] = perm[j], perm[k]
					rec(k + 1)
					perm[k], perm[j] = perm[j], perm[k]
				}
			}
			rec(0)
			c.Count("permutations_enumerated", cnt)
			c.Evals(cnt)
		}
		c.End()
	}
}

type c13Kept struct {
	out *layers.IPv4
	d   *dgram
}

func c13RunBenign(c *vlib.Ctx, r *vlib.Rand, ds []*dgram, seq []frag, caseNo int) {
	c.Step()
	var kept []c13Kept
	df := ip4defrag.NewIPv4Defragmenter()
	got := make([]map[int]bool, len(ds))
	lastTouch := make([]int, len(ds))
	lastNew := make([]int, len(ds))
	for k := range got {
		got[k] = map[int]bool{}
		lastTouch[k], lastNew[k] = -1, -1
	}
	detail := func() any {
		var s []string
		for _, f := range seq {
			s = append(s, fmt.Sprintf("k%d[%d,%d)%s o%d", f.key, f.off, f.off+len(f.data), map[bool]string{true: "MF", false: ""}[f.more], f.optLen))
		}
		return map[string]any{"arrival": s}
	}
	completed, outOfOrder, dups := 0, false, 0
	prevOff := map[int]int{}
	discardAt := -1
	if r.Chance(1, 3) && len(seq) > 2 {
		discardAt = r.Range(1, len(seq)-1)
	}
	for step, f := range seq {
		if step == discardAt {
			// forget partial datagrams last touched before cut
			cut := r.Range(0, step)
			ambiguous := false
			for k := range ds {
				// a duplicate does not count as "touching" in the implementation; whether it should is not stated, so
				// cut-offs that fall between the last new fragment and a later duplicate of a key are not used
				if len(got[k]) > 0 && lastNew[k] < cut && lastTouch[k] >= cut {
					ambiguous = true
				}
			}
			if ambiguous {
				cut = 0
			}
			want := 0
			for k := range ds {
				if len(got[k]) > 0 && lastTouch[k] < cut {
					want++
					got[k] = map[int]bool{}
				}
			}
			var nb int
			if pi := vlib.Guard(func() { nb = df.DiscardOlderThan(c13Base.Add(time.Duration(cut) * time.Second)) }); pi != nil {
				c.Violation(pi.Key, "DiscardOlderThan panicked: "+pi.Value, detail())
				return
			}
			if nb != want {
				c.Violation("discard-count", fmt.Sprintf("DiscardOlderThan forgot %d partial datagrams, %d were last touched before the cut-off", nb, want), detail())
			}
			c.Count("discards", 1)
			if want > 0 {
				c.Count("discards_that_forgot_something", 1)
			}
		}
		var d *dgram
		var wire []byte
		if f.key < 0 {
			pd := &dgram{src: pk.A4(r.Bytes(4)), dst: pk.A4(r.Bytes(4)), id: r.U16(), proto: 6}
			wire = c13Wire(pd, f, r)
		} else {
			d = ds[f.key]
			wire = c13Wire(d, f, r)
		}
		in, err := c13Decode(wire)
		if err != nil {
			c.Violation("harness-fragment-does-not-decode", err.Error(), hex.EncodeToString(wire))
			return
		}
		before := fmt.Sprintf("%#v", *in)
		var out *layers.IPv4
		var derr error
		if pi := vlib.Guard(func() { out, derr = df.DefragIPv4WithTimestamp(in, c13Base.Add(time.Duration(step)*time.Second)) }); pi != nil {
			c.Violation(pi.Key, "DefragIPv4WithTimestamp panicked: "+pi.Value, detail())
			return
		}
		_ = derr
		if f.key < 0 {
			if out != in || fmt.Sprintf("%#v", *in) != before {
				c.Violation("passthrough-altered", "an unfragmented/DF packet was not returned unchanged (same pointer, same contents)", detail())
			}
			c.Count("passthrough_packets", 1)
			continue
		}
		k := f.key
		if po, ok := prevOff[k]; ok && f.off < po {
			outOfOrder = true
		}
		prevOff[k] = f.off
		lastTouch[k] = step
		if got[k][f.idx] {
			dups++
			if out != nil {
				c.Violation("duplicate-fragment-completes", "a duplicate fragment made the defragmenter return a datagram", detail())
				got[k] = map[int]bool{}
			}
			continue
		}
		got[k][f.idx] = true
		lastNew[k] = step
		if len(got[k]) == len(d.frags) {
			if out == nil {
				key := "complete-set-returns-nothing"
				if d.opt1 > 0 || d.optN > 0 {
					key += ":with-ip-options"
				}
				for _, x := range d.frags {
					if x.off/8 > 8183 {
						key = "complete-set-returns-nothing:fragment-offset-above-8183"
					}
				}
				c.Violation(key, fmt.Sprintf("all %d fragments fed, nothing returned (err=%v)", len(d.frags), derr), detail())
			} else {
				c13CheckComplete(c, out, d, detail)
				completed++
				kept = append(kept, c13Kept{out, d})
			}
			got[k] = map[int]bool{}
		} else if out != nil {
			c.Violation("early-result", fmt.Sprintf("datagram returned after %d of %d fragments", len(got[k]), len(d.frags)), detail())
			got[k] = map[int]bool{}
		}
	}
	// a returned datagram belongs to the caller: it must still be the original after the defragmenter went on to work
	// on later fragments and datagrams (a result that aliases memory the defragmenter reuses would change now)
	for _, kd := range kept {
		if !bytes.Equal(kd.out.Payload, kd.d.payload) || int(kd.out.Length) != int(kd.out.IHL)*4+len(kd.out.Payload) {
			c.Violation("returned-datagram-changed-later", "a datagram that was returned complete and correct no longer equals the original after later fragments were processed", detail())
			break
		}
	}
	c.Count("returned_datagrams_rechecked_at_the_end", len(kept))
	c.Count("datagrams_completed", completed)
	c.Count("duplicate_fragments_fed", dups)
	if outOfOrder && len(seq) >= 3 {
		c.NonTrivial(c13HashSeq(seq))
		c.Count("histories_out_of_order", 1)
	}
	if c.WantSample() && len(seq) >= 4 {
		c.Sample(detail())
	}
}

func c13HashSeq(seq []frag) uint64 {
	v := []uint64{}
	for _, f := range seq {
		v = append(v, uint64(f.key+1)<<48|uint64(f.off)<<24|uint64(len(f.data))<<4|uint64(f.optLen/4), vlib.HashBytes(f.data))
	}
	return vlib.Mix(v...)
}

// ---- hostile histories: whatever is returned must be made of bytes that fragments placed at those offsets ---------

// c13Oversize: complete, hole-free sets whose header + payload exceed 65 535 bytes (ping-of-death shape). Whatever is
// returned must have a Length consistent with header and payload - which a 16-bit Length cannot be - so the only
// acceptable outcomes are an error or nothing.
func c13Oversize(c *vlib.Ctx, r *vlib.Rand) {
	df := ip4defrag.NewIPv4Defragmenter()
	withOpts := r.Bool()
	d := c13NewDgram(r, 0, 0, withOpts)
	hdr := 20 + d.opt1
	L := 65535 - hdr + r.Range(1, 60) // 1..60 bytes too many
	if r.Chance(1, 4) {
		L = 65535 - hdr - r.Intn(2)*8 // control: the largest datagrams that do fit must still be rebuilt
	}
	d.payload = r.Bytes(L)
	// partition with the last fragment starting at or below offset 8183*8 so that it passes the per-fragment checks
	nf := r.Range(2, 12)
	c13Partition(r, d, nf)
	last := &d.frags[len(d.frags)-1]
	if last.off > 8183*8 {
		// merge the tail into one last fragment starting at 8183*8 or lower
		cut := (8183 - r.Intn(4)) * 8
		var fr []frag
		for _, f := range d.frags {
			if f.off+len(f.data) <= cut {
				fr = append(fr, f)
			} else if f.off < cut {
				f.data = d.payload[f.off:cut]
				f.more = true
				fr = append(fr, f)
			}
		}
		fr = append(fr, frag{idx: len(fr), off: cut, data: d.payload[cut:], more: false, optLen: d.optN})
		for i := range fr {
			fr[i].idx = i
		}
		d.frags = fr
	}
	seq := append([]frag{}, d.frags...)
	if r.Bool() {
		p := r.Perm(len(seq))
		s2 := make([]frag, len(seq))
		for a, b := range p {
			s2[a] = seq[b]
		}
		seq = s2
	}
	var log []string
	fits := hdr+L <= 65535
	for step, f := range seq {
		wire := c13Wire(d, f, r)
		if len(wire) > 65535 {
			return
		}
		in, err := c13Decode(wire)
		if err != nil {
			return
		}
		log = append(log, fmt.Sprintf("[%d,%d)%s o%d", f.off, f.off+len(f.data), map[bool]string{true: "MF", false: ""}[f.more], f.optLen))
		var out *layers.IPv4
		if pi := vlib.Guard(func() { out, _ = df.DefragIPv4WithTimestamp(in, c13Base.Add(time.Duration(step)*time.Second)) }); pi != nil {
			c.Violation(pi.Key, "DefragIPv4WithTimestamp panicked on an oversize set: "+pi.Value, log)
			return
		}
		if out == nil {
			continue
		}
		c.Count("oversize_tier_results", 1)
		switch {
		case int(out.Length) != int(out.IHL)*4+len(out.Payload):
			c.Violation("oversize-set-returned", fmt.Sprintf("a set with %d header + %d payload bytes was returned as a datagram with Length=%d, IHL=%d, %d payload bytes", hdr, L, out.Length, out.IHL, len(out.Payload)), log)
		case !bytes.Equal(out.Payload, d.payload):
			c.Violation("complete-payload-differs", "oversize tier: returned payload differs from the original", log)
		}
	}
	c.Count("oversize_sets_fed", 1)
	if fits {
		c.Count("oversize_tier_controls_that_fit", 1)
	}
}

func c13Hostile(c *vlib.Ctx) {
	n := c.Pick(1500, 25000)
	for i := 0; i < c.Pick(40, 400); i++ {
		if !c.Begin(1000000 + i) {
			continue
		}
		c13Oversize(c, c.Rand(uint64(1000000+i)))
		c.End()
	}
	for i := 0; i < n+2; i++ {
		if !c.Begin(i) {
			continue
		}
		r := c.Rand(uint64(i))
		df := ip4defrag.NewIPv4Defragmenter()
		nk := r.Range(1, 3)
		type kstate struct {
			d      *dgram
			placed map[int]map[byte]bool
			finals map[int]bool
		}
		var ks []*kstate
		for k := 0; k < nk; k++ {
			d := c13NewDgram(r, k, r.Range(16, 400), r.Chance(1, 3))
			ks = append(ks, &kstate{d: d, placed: map[int]map[byte]bool{}, finals: map[int]bool{}})
		}
		var log []string
		detail := func() any { return map[string]any{"arrival": log} }
		steps := r.Range(3, 40)
		if i >= n {
			steps = 8300 // more than IPv4MaximumFragmentListLen fragments for one key
		}
		results := 0
		for s := 0; s < steps; s++ {
			k := r.Intn(nk)
			st := ks[k]
			L := len(st.d.payload)
			var f frag
			f.key = k
			f.optLen = []int{0, 0, st.d.opt1, st.d.optN}[r.Intn(4)]
			switch r.Intn(10) {
			case 0: // offset beyond the legal maximum
				f.off = (8184 + r.Intn(7)) * 8
				f.data = r.Bytes(8)
				f.more = r.Bool()
			case 1: // tiny fragment with MF
				f.off = r.Intn(L/8+1) * 8
				f.data = r.Bytes(r.Intn(8))
				f.more = true
			case 2: // would overrun 65535
				f.off = 8180 * 8
				f.data = r.Bytes(r.Range(60, 300))
				f.more = r.Bool()
			default:
				f.off = r.Intn(L/8+1) * 8
				if i >= n {
					f.off = s * 8 % 65000
				}
				ln := r.Range(1, 8) * 8
				if r.Chance(1, 4) {
					ln = r.Range(1, 64)
				}
				f.more = r.Chance(4, 5)
				if !f.more || r.Chance(1, 2) {
					// consistent data from the underlying original (padded with PRNG bytes beyond it)
					f.data = make([]byte, ln)
					for j := range f.data {
						if f.off+j < L {
							f.data[j] = st.d.payload[f.off+j]
						} else {
							f.data[j] = r.Byte()
						}
					}
				} else {
					f.data = r.Bytes(ln) // conflicting data
				}
			}
			wire := c13Wire(st.d, f, r)
			if len(wire) > 65535 {
				continue
			}
			in, err := c13Decode(wire)
			if err != nil {
				continue
			}
			log = append(log, fmt.Sprintf("k%d[%d,%d)%s o%d", k, f.off, f.off+len(f.data), map[bool]string{true: "MF", false: ""}[f.more], f.optLen))
			if len(log) > 60 {
				log = log[len(log)-60:]
			}
			for j, bv := range f.data {
				m := st.placed[f.off+j]
				if m == nil {
					m = map[byte]bool{}
					st.placed[f.off+j] = m
				}
				m[bv] = true
			}
			if !f.more {
				st.finals[f.off+len(f.data)] = true
			}
			var out *layers.IPv4
			if pi := vlib.Guard(func() { out, _ = df.DefragIPv4WithTimestamp(in, c13Base.Add(time.Duration(s)*time.Second)) }); pi != nil {
				c.Violation(pi.Key, "DefragIPv4WithTimestamp panicked on a hostile fragment set: "+pi.Value, detail())
				break
			}
			if !f.more && f.off == 0 {
				// MF=0 and offset 0 is an unfragmented packet: pass-through is the specified behaviour
				if out != in {
					c.Violation("passthrough-altered", "an unfragmented packet was not returned as is", detail())
				}
				continue
			}
			if out == nil {
				continue
			}
			if out == in {
				c.Violation("hostile-fragment-passed-through", "a fragment (MF or offset != 0) was returned as if unfragmented", detail())
				continue
			}
			results++
			bad := -1
			for j, bv := range out.Payload {
				if !st.placed[j][bv] {
					bad = j
					break
				}
			}
			switch {
			case bad >= 0:
				c.Violation("result-contains-unplaced-byte", fmt.Sprintf("returned datagram has at offset %d a byte no fragment placed there (payload %d bytes)", bad, len(out.Payload)), detail())
			// (a first version also required the payload to end where an MF=0 fragment ended; the statement does not say
			// that - a set with data placed beyond its last fragment is merely inconsistent - so that rule was dropped)
			case int(out.Length) != int(out.IHL)*4+len(out.Payload):
				c.Violation("complete-length-inconsistent", fmt.Sprintf("returned datagram Length=%d but 4*IHL+len(Payload)=%d+%d", out.Length, int(out.IHL)*4, len(out.Payload)), detail())
			case out.Flags&layers.IPv4MoreFragments != 0 || out.FragOffset != 0:
				c.Violation("complete-fragment-fields-set", "returned datagram still has fragmentation fields set", detail())
			}
			st.placed, st.finals = map[int]map[byte]bool{}, map[int]bool{}
		}
		c.Count("hostile_results_returned", results)
		c.Count("hostile_fragments_fed", len(log))
		c.NonTrivial(vlib.HashString(fmt.Sprint(log)))
		if c.WantSample() {
			c.Sample(detail())
		}
		c.End()
	}
}

// ---- IPv6: valid partitions in any order rebuild the payload --------------------------------------------------------

func c13V6(c *vlib.Ctx) {
	n := c.Pick(1500, 20000)
	for i := 0; i < n; i++ {
		if !c.Begin(i) {
			continue
		}
		r := c.Rand(uint64(i))
		df := ip6defrag.NewIPv6Defragmenter()
		nk := r.Range(1, 3)
		type v6d struct {
			id      uint32
			nh      uint8
			payload []byte
			cuts    []int
			src     [16]byte
			dst     [16]byte
			got     map[int]bool
		}
		var ds []*v6d
		type v6f struct{ k, idx int }
		var seq []v6f
		for k := 0; k < nk; k++ {
			d := &v6d{id: r.U32(), nh: uint8([]int{6, 17, 58, 59}[r.Intn(4)]), payload: r.Bytes(r.Range(2, 40)*8 + r.Intn(8)), src: pk.A16(r.Bytes(16)), dst: pk.A16(r.Bytes(16)), got: map[int]bool{}}
			for _, o := range ds {
				if o.id == d.id {
					d.id++
				}
			}
			units := (len(d.payload) + 7) / 8
			nf := r.Range(2, min(20, units))
			cs := map[int]bool{}
			for len(cs) < nf-1 {
				cs[r.Range(1, units-1)*8] = true
			}
			d.cuts = []int{0}
			for u := 1; u < units; u++ {
				if cs[u*8] {
					d.cuts = append(d.cuts, u*8)
				}
			}
			d.cuts = append(d.cuts, len(d.payload))
			for j := 0; j+1 < len(d.cuts); j++ {
				seq = append(seq, v6f{k, j})
			}
			ds = append(ds, d)
		}
		p := r.Perm(len(seq))
		s2 := make([]v6f, len(seq))
		for a, b := range p {
			s2[a] = seq[b]
		}
		seq = s2
		if r.Chance(1, 3) { // duplicates before completion
			j := r.Intn(len(seq))
			seq = append(seq[:j+1], seq[j:]...)
		}
		var log []string
		ooo := false
		last := map[int]int{}
		for _, f := range seq {
			d := ds[f.k]
			lo, hi := d.cuts[f.idx], d.cuts[f.idx+1]
			more := f.idx+2 < len(d.cuts)
			wire := pk.IPv6(pk.IPv6H{NextHdr: 44, HopLimit: 9, Src: d.src, Dst: d.dst}, pk.Cat(pk.IPv6Frag(d.nh, uint16(lo/8), more, d.id), d.payload[lo:hi]))
			pkt := gopacket.NewPacket(wire, layers.LayerTypeIPv6, gopacket.Default)
			ip6, _ := pkt.Layer(layers.LayerTypeIPv6).(*layers.IPv6)
			fg, _ := pkt.Layer(layers.LayerTypeIPv6Fragment).(*layers.IPv6Fragment)
			if ip6 == nil || fg == nil {
				c.Violation("harness-v6-fragment-does-not-decode", "constructed IPv6 fragment did not decode", hex.EncodeToString(wire))
				break
			}
			log = append(log, fmt.Sprintf("id%x[%d,%d)", d.id, lo, hi))
			if l, ok := last[f.k]; ok && lo < l {
				ooo = true
			}
			last[f.k] = lo
			var out *layers.IPv6
			if pi := vlib.Guard(func() { out = df.DefragIPv6(ip6, fg) }); pi != nil {
				c.Violation(pi.Key, "DefragIPv6 panicked: "+pi.Value, log)
				break
			}
			dup := d.got[f.idx]
			d.got[f.idx] = true
			complete := len(d.got) == len(d.cuts)-1
			if !complete && out != nil {
				c.Violation("v6-early-result", fmt.Sprintf("IPv6 datagram returned after %d of %d fragments", len(d.got), len(d.cuts)-1), log)
			}
			if complete && !dup {
				if out == nil {
					c.Violation("v6-complete-set-returns-nothing", "all IPv6 fragments fed, nothing returned", log)
				} else if !bytes.Equal(out.Payload, d.payload) || uint8(out.NextHeader) != d.nh {
					c.Violation("v6-payload-differs", fmt.Sprintf("rebuilt IPv6 payload/next header differ (got %d bytes nh=%d, want %d bytes nh=%d)", len(out.Payload), out.NextHeader, len(d.payload), d.nh), log)
				} else {
					c.Count("v6_datagrams_completed", 1)
				}
			}
		}
		if ooo {
			c.NonTrivial(vlib.HashString(fmt.Sprint(log)))
		}
		if c.WantSample() {
			c.Sample(map[string]any{"v6_arrival": log})
		}
		c.End()
	}
}
