package main

import (
	"bytes"
	"fmt"
	"sync"
	"sync/atomic"
	"unsafe"

	"github.com/gopacket/gopacket"
	"github.com/gopacket/gopacket/layers"

	"verif/harness/internal/corpus"
	"verif/harness/internal/sig"
	"verif/harness/internal/vlib"
)

func init() {
	vlib.Register("C04", "isolation", c04Isolation)
	vlib.Register("C04", "pool", c04Pool)
}

var c04Lengths = []int{0, 1, 1499, 1500, 1501, 3000, 65535}

// c04Input returns an input of exactly n bytes that still decodes to several layers where n allows.
func c04Input(r *vlib.Rand, n int) []byte {
	b := corpus.ConstructedOne(r)
	for len(b) < n {
		b = append(b, r.Bytes(n-len(b))...)
	}
	return b[:n]
}

func c04Isolation(c *vlib.Ctx) {
	cp := getCorpus()
	n := c.Pick(3000, 60000)
	chunk := 100
	eth := layers.LayerTypeEthernet
	for k := 0; k*chunk < n; k++ {
		if !c.Begin(k) {
			continue
		}
		r := c.Rand(uint64(k))
		for j := 0; j < chunk; j++ {
			var in []byte
			t := gopacket.LayerType(eth)
			how := ""
			switch {
			case j < len(c04Lengths):
				in, how = c04Input(r, c04Lengths[j]), fmt.Sprintf("length-%d", c04Lengths[j])
			case j < len(c04Lengths)+40:
				// prefixes of the first seeds of a type, one length after the other across the cases: a decoder that looks
				// at bytes behind the input (spare capacity) shows when the input ends exactly in front of an optional part
				t = cp.Types[(k*7+j)%len(cp.Types)]
				if sd := cp.Seeds[t]; len(sd) > 0 {
					seed := sd[(k/3)%min(len(sd), 3)]
					in, how = seed[:(k*40+j)%(len(seed)+1)], "prefix"
				} else {
					in, how = cp.Input(r, t)
				}
			case r.Chance(1, 3):
				in, how = c04Input(r, r.Range(1400, 1600)), "around-pool-block"
			default:
				t = cp.Types[r.Intn(len(cp.Types))]
				in, how = cp.Input(r, t)
			}
			if len(in) > 65535 {
				in = in[:65535]
			}
			dsad := r.Bool()
			lazy := r.Bool()
			det := func(o gopacket.DecodeOptions) map[string]any {
				return map[string]any{"first_layer": t.String(), "input_len": len(in), "input_hex": hx(in), "mutation": how, "options": optString(o)}
			}
			def := gopacket.DecodeOptions{DecodeStreamsAsDatagrams: dsad, Lazy: lazy}
			ref, pi := c02Sig(append([]byte{}, in...), t, def)
			if pi != nil {
				continue
			}
			// (1) copy isolates: default and Pool packets do not change when the caller's buffer is overwritten afterwards
			for _, o := range []gopacket.DecodeOptions{def, {DecodeStreamsAsDatagrams: dsad, Lazy: lazy, Pool: true}} {
				buf := append(make([]byte, 0, len(in)+16), in...)
				var p gopacket.Packet
				if pi := vlib.Guard(func() { p = gopacket.NewPacket(buf, t, o) }); pi != nil {
					continue
				}
				for i := range buf {
					buf[i] = ^buf[i]
				}
				buf = append(buf, 0xAA, 0xBB) // write into the spare capacity as well
				var after sig.PacketSig
				if pi := vlib.Guard(func() { after = sig.Packet(p, true) }); pi == nil {
					if ok, what := ref.Equal(after); !ok {
						key := "packet-changes-with-callers-buffer:" + sig.DiffLayerFirst(ref, after, t.String())
						if o.Pool {
							key += ":pool"
							if len(in) > 1500 {
								key += ":larger-than-pool-block"
							}
						}
						c.Violation(key, fmt.Sprintf("a packet decoded with %s changed when the caller's buffer was overwritten after decoding: %s", optString(o), what), det(o))
					}
				}
				dispose(p)
				c.Evals(1)
			}
			// (2) NoCopy and Pool change only where the bytes live
			for _, o := range []gopacket.DecodeOptions{{DecodeStreamsAsDatagrams: dsad, Lazy: lazy, NoCopy: true}, {DecodeStreamsAsDatagrams: dsad, Lazy: lazy, Pool: true}, {DecodeStreamsAsDatagrams: dsad, Lazy: lazy, Pool: true, NoCopy: true}} {
				// an exact-capacity copy (append would round the capacity up to a size class): bytes behind the input
				// that only one of the configurations can see must not decide the result
				exact := make([]byte, len(in))
				copy(exact, in)
				s, pi := c02Sig(exact, t, o)
				if pi != nil {
					c.Violation("option-changes-result:panic@"+pi.Func, fmt.Sprintf("decoding with %s panics where the default options do not: %s", optString(o), pi.Value), det(o))
					continue
				}
				if ok, what := ref.Equal(s); !ok {
					key := "option-changes-result:" + sig.DiffLayerFirst(ref, s, t.String()) + ":" + map[bool]string{true: "Pool", false: "NoCopy"}[o.Pool]
					if len(in) > 1500 {
						key += ":larger-than-pool-block"
					}
					c.Violation(key, fmt.Sprintf("decoding with %s gives a different packet than the default options: %s", optString(o), what), det(o))
				}
				c.Evals(1)
			}
			// (2b) NoCopy with spare capacity behind the input (a read buffer, a ring): the bytes there are the caller's;
			// decoding and every later read-only use leave them - and the input - as they were
			{
				room := make([]byte, len(in)+40)
				copy(room, in)
				for i := len(in); i < len(room); i++ {
					room[i] = 0xC3
				}
				o := gopacket.DecodeOptions{DecodeStreamsAsDatagrams: dsad, Lazy: lazy, NoCopy: true}
				if _, pi := c02Sig(room[:len(in)], t, o); pi == nil {
					for i, b := range room {
						if (i < len(in) && b != in[i]) || (i >= len(in) && b != 0xC3) {
							c.Violation("nocopy-decode-writes-to-callers-buffer:"+t.String(), fmt.Sprintf("decoding with %s changed byte %d of the caller's buffer (the input has %d bytes, the buffer %d)", optString(o), i, len(in), len(room)), det(o))
							break
						}
					}
				}
				c.Evals(1)
			}
			if len(in) >= 1499 || len(ref.Types) >= 3 {
				c.NonTrivial(vlib.Mix(uint64(t), vlib.HashBytes(in)))
			}
			c.CountIn("input_length_classes", lenClass(len(in)), 1)
		}
		if c.WantSample() {
			c.Sample(map[string]any{"lengths_always_included": fmt.Sprint(c04Lengths), "inputs_per_case": chunk})
		}
		c.End()
	}
}

func lenClass(n int) string {
	switch {
	case n == 0:
		return "0"
	case n < 1499:
		return "1..1498"
	case n <= 1501:
		return "1499..1501"
	default:
		return ">1501"
	}
}

// ---- pooled packets never share backing memory while undisposed ----------------------------------------------------------

type c04Live struct {
	mu     sync.Mutex
	byBase map[uintptr]int // backing array base -> owner id
}

func c04Pool(c *vlib.Ctx) {
	rounds := c.Pick(5, 20)
	c.SetBudget(600, 3<<30)
	for round := 0; round < rounds; round++ {
		if !c.Begin(round) {
			continue
		}
		r := c.Rand(uint64(round))
		G := r.Range(2, 16)
		ops := c.Pick(1200, 8000)
		reg := &c04Live{byBase: map[uintptr]int{}}
		var reuse, maxLive, shared int64
		seenBases := sync.Map{}
		var wg sync.WaitGroup
		var violMu sync.Mutex
		var viols []string
		for g := 0; g < G; g++ {
			wg.Add(1)
			go func(g int, gr *vlib.Rand) {
				defer wg.Done()
				type held struct {
					p    gopacket.PooledPacket
					s    sig.PacketSig
					data []byte
					base uintptr
					id   int
				}
				var live []held
				for op := 0; op < ops; op++ {
					if len(live) > 0 && (gr.Chance(1, 2) || len(live) > 6) {
						// dispose one: re-check it first (sharing shows as corruption even if addresses were missed)
						i := gr.Intn(len(live))
						h := live[i]
						cur := sig.Packet(h.p, false)
						if ok, what := h.s.Equal(cur); !ok || !bytes.Equal(h.p.Data(), h.data) {
							violMu.Lock()
							viols = append(viols, "pooled-packet-corrupted-while-held\x00an undisposed pooled packet changed while other pooled packets were created ("+what+")")
							violMu.Unlock()
						}
						// monitor update order: remove BEFORE Dispose, insert AFTER NewPacket returns
						reg.mu.Lock()
						delete(reg.byBase, h.base)
						reg.mu.Unlock()
						h.p.Dispose()
						live = append(live[:i], live[i+1:]...)
						continue
					}
					n := []int{0, 1, 60, 200, 1499, 1500, 1501, 3000}[gr.Intn(8)]
					if gr.Chance(1, 2) {
						n = gr.Range(14, 1500)
					}
					in := c04Input(gr, n)
					p := gopacket.NewPacket(in, layers.LayerTypeEthernet, gopacket.DecodeOptions{Pool: true, Lazy: gr.Chance(1, 4)})
					pp, ok := p.(gopacket.PooledPacket)
					if !ok {
						continue // larger than the block: an ordinary packet
					}
					d := pp.Data()
					if !bytes.Equal(d, in) {
						violMu.Lock()
						viols = append(viols, "pooled-packet-data-differs\x00Data() of a pooled packet differs from the input")
						violMu.Unlock()
					}
					var base uintptr
					if cap(d) > 0 {
						base = uintptr(unsafe.Pointer(unsafe.SliceData(d[:cap(d)])))
					}
					id := g*1000000 + op
					if base != 0 {
						reg.mu.Lock()
						if other, dup := reg.byBase[base]; dup {
							atomic.AddInt64(&shared, 1)
							violMu.Lock()
							viols = append(viols, fmt.Sprintf("two-undisposed-pooled-packets-share-memory\x00packet %d and packet %d are both undisposed and use the same backing array", other, id))
							violMu.Unlock()
						}
						reg.byBase[base] = id
						if int64(len(reg.byBase)) > atomic.LoadInt64(&maxLive) {
							atomic.StoreInt64(&maxLive, int64(len(reg.byBase)))
						}
						reg.mu.Unlock()
						if _, was := seenBases.LoadOrStore(base, true); was {
							atomic.AddInt64(&reuse, 1)
						}
					}
					live = append(live, held{pp, sig.Packet(pp, false), append([]byte{}, d...), base, id})
				}
				for _, h := range live {
					reg.mu.Lock()
					delete(reg.byBase, h.base)
					reg.mu.Unlock()
					h.p.Dispose()
				}
			}(g, r.Fork())
		}
		wg.Wait()
		seen := map[string]bool{}
		for _, v := range viols {
			kv := bytes.SplitN([]byte(v), []byte{0}, 2)
			if !seen[string(kv[0])] {
				seen[string(kv[0])] = true
				c.Violation(string(kv[0]), string(kv[1]), map[string]any{"goroutines": G, "ops_per_goroutine": ops})
			}
		}
		c.Count("pool_histories", 1)
		c.Count("pool_block_reuses_observed", int(reuse))
		c.Count("pool_max_live_packets", int(maxLive))
		if maxLive >= 2 && reuse > 0 {
			c.NonTrivial(vlib.Mix(uint64(round), uint64(c.Batch), 404))
		}
		c.Evals(G * ops)
		if c.WantSample() {
			c.Sample(map[string]any{"goroutines": G, "ops_per_goroutine": ops, "block_reuses": reuse, "max_live": maxLive})
		}
		c.End()
	}
}
