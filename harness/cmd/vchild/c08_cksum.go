package main

import (
	"bytes"
	"encoding/binary"
	"encoding/hex"
	"fmt"
	"net"
	"strings"

	"github.com/gopacket/gopacket"
	"github.com/gopacket/gopacket/layers"

	"verif/harness/internal/pk"
	"verif/harness/internal/vlib"
)

func init() {
	vlib.Register("C08", "jumbo", c08Jumbo)
	vlib.Register("C08", "fold", c08Fold)
	vlib.Register("C08", "sum", c08Sum)
	vlib.Register("C08", "proto", c08Proto)
}

// ---- 1. FoldChecksum against the reference for all / a stratified subset of accumulator values ----------------------

func c08Fold(c *vlib.Ctx) {
	check := func(x uint32) bool {
		if gopacket.FoldChecksum(x) != ^pk.Fold16(x) {
			c.Violation("fold-differs-from-rfc1071", fmt.Sprintf("FoldChecksum(%#x)=%#x, reference %#x", x, gopacket.FoldChecksum(x), ^pk.Fold16(x)), nil)
			return false
		}
		return true
	}
	if !c.Quick() {
		// all 2^32 values, sharded by the top bits
		per := uint64(1<<32) / uint64(c.NBatch)
		lo := per * uint64(c.Batch)
		hi := lo + per
		if c.Batch == c.NBatch-1 {
			hi = 1 << 32
		}
		const chunk = 1 << 24
		idx := 0
		for s := lo; s < hi; s += chunk {
			idx++
			if !c.Begin(idx) {
				continue
			}
			e := s + chunk
			if e > hi {
				e = hi
			}
			bad := 0
			for x := s; x < e && bad < 3; x++ {
				if !check(uint32(x)) {
					bad++
				}
			}
			c.Evals(int(e-s) - 1)
			c.Count("fold_values", int(e-s))
			c.NonTrivial(vlib.Mix(s, e)) // each distinct range counts once
			c.End()
		}
		c.Sample(map[string]any{"fold_range": fmt.Sprintf("[%#x,%#x)", lo, hi)})
		return
	}
	special := []uint32{0, 1, 2, 0x7fff, 0x8000, 0xfffe, 0xffff}
	if c.Begin(0) {
		n := 0
		for _, h := range special {
			for l := uint32(0); l <= 0xffff; l++ {
				check(h<<16 | l)
				check(l<<16 | h)
				n += 2
			}
		}
		c.Count("fold_values", n)
		c.Evals(n)
		c.End()
	}
	if c.Begin(1) {
		r := c.Rand(1)
		n := (1 << 22) / c.NBatch
		for i := 0; i < n; i++ {
			check(r.U32())
		}
		c.Count("fold_values", n)
		c.Evals(n)
		c.NonTrivial(vlib.Mix(uint64(c.Batch), 1))
		c.NonTrivial(vlib.Mix(uint64(c.Batch), 2))
		c.Sample(map[string]any{"fold_stratified": "high or low half in {0,1,2,0x7fff,0x8000,0xfffe,0xffff} x all 65536 + random"})
		c.End()
	}
}

// ---- 2. ComputeChecksum+FoldChecksum against the reference over byte strings ----------------------------------------

func c08Sum(c *vlib.Ctx) {
	one := func(d []byte, init uint32, what string) {
		got := gopacket.FoldChecksum(gopacket.ComputeChecksum(d, init))
		want := pk.Cksum1071(d, uint64(init))
		// 0x0000 and 0xffff are both representations of zero in one's complement arithmetic; an accumulator that is
		// exactly 0 folds to 0xffff in both implementations, so plain equality is the right comparison here.
		if got != want {
			key := "sum-differs-from-rfc1071"
			if len(d) > 131072 {
				key = "sum-differs-from-rfc1071:long-input-carry"
			}
			c.Violation(key, fmt.Sprintf("%s: len=%d init=%#x got %#04x want %#04x", what, len(d), init, got, want), map[string]any{"len": len(d), "init": init, "head": hex.EncodeToString(d[:min(len(d), 64)])})
		}
		c.Evals(1)
		c.Count("sum_strings", 1)
		if len(d) >= 2 {
			c.NonTrivial(vlib.HashBytes(d, []byte{byte(init), byte(init >> 8), byte(init >> 16), byte(init >> 24)}))
		}
	}
	inits := []uint32{0, 1, 0xffff, 0x10000, 0x1fffe, 0xfffe0001}
	if c.Begin(0) && c.Batch == 0 {
		// all lengths 0..64 x patterns
		for n := 0; n <= 64; n++ {
			for _, pat := range []byte{0x00, 0xff, 0x01, 0x80, 0x7f} {
				d := make([]byte, n)
				for i := range d {
					d[i] = pat
				}
				for _, in := range inits {
					one(d, in, "pattern")
				}
			}
		}
		c.End()
	} else if c.Batch != 0 {
		c.Begin(0)
		c.End()
	}
	n := c.Pick(3000, 40000)
	for i := 1; i <= n; i++ {
		if !c.Begin(i) {
			continue
		}
		r := c.Rand(uint64(i))
		var ln int
		switch r.Intn(8) {
		case 0:
			ln = r.Intn(70)
		case 1:
			ln = 65535 + r.Intn(3)
		default:
			ln = r.Intn(4096)
		}
		d := r.Bytes(ln)
		if r.Chance(1, 5) {
			for j := range d {
				d[j] = 0xff
			}
		}
		if c.WantSample() {
			c.Sample(map[string]any{"sum_len": ln, "head": hex.EncodeToString(d[:min(ln, 32)])})
		}
		one(d, inits[r.Intn(len(inits))], "random")
		c.End()
	}
	// the 32-bit accumulator carry-out region: > 128 KiB of large words
	big := c.Pick(6, 40)
	for i := 0; i < big; i++ {
		if !c.Begin(100000 + i) {
			continue
		}
		r := c.Rand(uint64(100000 + i))
		ln := 131072 + r.Intn(170000)
		if i < 4 {
			ln = []int{131072, 131074, 131076, 200000}[i]
		}
		d := make([]byte, ln)
		if i%2 == 0 {
			for j := range d {
				d[j] = 0xff
			}
		} else {
			r.Fill(d)
			for j := 0; j < len(d); j += 2 {
				d[j] |= 0xf0
			}
		}
		one(d, 0, "long")
		c.Count("sum_long_inputs", 1)
		c.End()
	}
}

// ---- 3-5. protocol checksums: written value == reference; verification accepts; single bit flips are rejected -------

type c08Built struct {
	name     string
	bytes    []byte // from the network layer (or GRE/ICMPv4 carrier IPv4) on
	first    gopacket.LayerType
	ckOff    int    // offset of the 16-bit checksum field in bytes
	covStart int    // covered range [covStart, len(bytes)) plus pseudo
	pseudo   []byte // pseudo-header bytes (nil when none)
	udp      bool
	layerT   gopacket.LayerType // the layer whose checksum this is
	addrOffs [][2]int           // byte ranges inside bytes that feed the pseudo-header (addresses)
	hdrOnly  int                // for the IPv4 header checksum: covered range is [0,hdrOnly)
}

// ref returns the checksum the reference says must be stored.
func (b *c08Built) ref(bytes []byte) uint16 {
	cp := append([]byte{}, bytes...)
	cp[b.ckOff], cp[b.ckOff+1] = 0, 0
	var cov []byte
	if b.hdrOnly > 0 {
		cov = cp[:b.hdrOnly]
	} else {
		cov = cp[b.covStart:]
	}
	ps := b.pseudo
	if ps != nil && len(b.addrOffs) > 0 {
		// rebuild the pseudo-header from the (possibly flipped) address bytes
		ps = append([]byte{}, b.pseudo...)
		o := 0
		for _, ao := range b.addrOffs {
			copy(ps[o:], cp[ao[0]:ao[1]])
			o += ao[1] - ao[0]
		}
	}
	v := pk.Cksum1071(pk.Cat(ps, cov), 0)
	if b.udp && v == 0 {
		v = 0xffff
	}
	return v
}

var c08Reused = gopacket.NewSerializeBuffer()
var c08SerCount int

func c08Serialize(c *vlib.Ctx, ls ...gopacket.SerializableLayer) []byte {
	// alternate between a fresh buffer and one that is reused and still holds junk from its previous use: the written
	// checksum must not depend on what the buffer memory contained
	c08SerCount++
	buf := gopacket.NewSerializeBuffer()
	if c08SerCount%2 == 0 {
		buf = c08Reused
		buf.Clear()
		if p, err := buf.PrependBytes(200); err == nil {
			for i := range p {
				p[i] = byte(0xA5 + i + c08SerCount)
			}
		}
		if p, err := buf.AppendBytes(100); err == nil {
			for i := range p {
				p[i] = byte(0x5A + i)
			}
		}
		c.Count("serializations_into_dirty_reused_buffer", 1)
	}
	if err := gopacket.SerializeLayers(buf, gopacket.SerializeOptions{FixLengths: true, ComputeChecksums: true}, ls...); err != nil {
		c.Violation("serialize-error", "SerializeLayers(ComputeChecksums) failed on an in-range packet: "+err.Error(), nil)
		return nil
	}
	return append([]byte{}, buf.Bytes()...)
}

var c08Protos = []string{"ip4hdr", "tcp4", "tcp6", "udp4", "udp6", "icmp4", "icmp6", "gre", "grekeyseq", "greroute-odd", "greroute-even"}

// c08Build builds one packet of the named protocol with the given payload via gopacket's serializers.
func c08Build(c *vlib.Ctx, r *vlib.Rand, proto string, payload []byte, id int) *c08Built {
	src4, dst4 := net.IP(r.Bytes(4)), net.IP(r.Bytes(4))
	src6, dst6 := net.IP(r.Bytes(16)), net.IP(r.Bytes(16))
	// callers hand IPv4 addresses over in either form (4 bytes, or the 16-byte form net.ParseIP / net.IPv4 return), and
	// not necessarily the same one for both addresses
	srcForm, dstForm := src4, dst4
	if r.Chance(1, 3) {
		srcForm = src4.To16()
	}
	if r.Chance(1, 3) {
		dstForm = dst4.To16()
	}
	ip4 := &layers.IPv4{Version: 4, TTL: byte(r.Range(1, 255)), TOS: r.Byte(), Id: r.U16(), SrcIP: srcForm, DstIP: dstForm}
	ip6 := &layers.IPv6{Version: 6, HopLimit: 64, TrafficClass: r.Byte(), FlowLabel: r.U32() & 0xfffff, SrcIP: src6, DstIP: dst6}
	if id >= 0 {
		ip4.Id = uint16(id)
	}
	b := &c08Built{name: proto}
	pl := gopacket.Payload(payload)
	v4pseudo := func(p uint8, n int) []byte { return pk.PseudoV4(pk.A4(src4), pk.A4(dst4), p, n) }
	v6pseudo := func(p uint8, n int) []byte { return pk.PseudoV6(pk.A16(src6), pk.A16(dst6), p, n) }
	switch proto {
	case "ip4hdr":
		// IHL 5..15 through options
		nopt := r.Intn(11) // words of options
		var opts []layers.IPv4Option
		left := nopt * 4
		// half of the packets leave 1..3 bytes of the last word to the serializer's alignment padding (which the
		// checksum covers like any other header byte)
		slack := 0
		if nopt > 0 && r.Bool() {
			slack = r.Range(1, 3)
		}
		for left > slack {
			switch {
			case left-slack >= 3 && r.Bool():
				l := r.Range(3, min(left-slack, 11))
				opts = append(opts, layers.IPv4Option{OptionType: uint8(r.Range(2, 255)), OptionLength: uint8(l), OptionData: r.Bytes(l - 2)})
				left -= l
			default:
				opts = append(opts, layers.IPv4Option{OptionType: 1, OptionLength: 1})
				left--
			}
		}
		ip4.Options = opts
		ip4.Protocol = layers.IPProtocol(253)
		b.bytes = c08Serialize(c, ip4, pl)
		b.first, b.ckOff, b.layerT = layers.LayerTypeIPv4, 10, layers.LayerTypeIPv4
		b.hdrOnly = 20 + nopt*4
	case "tcp4", "tcp6":
		tcp := &layers.TCP{SrcPort: layers.TCPPort(r.U16()), DstPort: layers.TCPPort(r.U16()), Seq: r.U32(), Ack: r.U32(), ACK: true, PSH: r.Bool(), Window: r.U16(), Urgent: r.U16()}
		if r.Bool() {
			tcp.Options = []layers.TCPOption{{OptionType: layers.TCPOptionKindMSS, OptionLength: 4, OptionData: r.Bytes(2)}, {OptionType: layers.TCPOptionKindNop, OptionLength: 1}}
		}
		if proto == "tcp4" {
			ip4.Protocol = layers.IPProtocolTCP
			tcp.SetNetworkLayerForChecksum(ip4)
			b.bytes = c08Serialize(c, ip4, tcp, pl)
			b.first, b.covStart = layers.LayerTypeIPv4, 20
			b.addrOffs = [][2]int{{12, 16}, {16, 20}}
		} else {
			ip6.NextHeader = layers.IPProtocolTCP
			tcp.SetNetworkLayerForChecksum(ip6)
			b.bytes = c08Serialize(c, ip6, tcp, pl)
			b.first, b.covStart = layers.LayerTypeIPv6, 40
			b.addrOffs = [][2]int{{8, 24}, {24, 40}}
		}
		if b.bytes == nil {
			return nil
		}
		b.ckOff, b.layerT = b.covStart+16, layers.LayerTypeTCP
		if proto == "tcp4" {
			b.pseudo = v4pseudo(6, len(b.bytes)-b.covStart)
		} else {
			b.pseudo = v6pseudo(6, len(b.bytes)-b.covStart)
		}
	case "udp4", "udp6":
		udp := &layers.UDP{SrcPort: layers.UDPPort(r.U16()), DstPort: layers.UDPPort(r.U16())}
		if proto == "udp4" {
			ip4.Protocol = layers.IPProtocolUDP
			udp.SetNetworkLayerForChecksum(ip4)
			b.bytes = c08Serialize(c, ip4, udp, pl)
			b.first, b.covStart = layers.LayerTypeIPv4, 20
			b.addrOffs = [][2]int{{12, 16}, {16, 20}}
		} else {
			ip6.NextHeader = layers.IPProtocolUDP
			udp.SetNetworkLayerForChecksum(ip6)
			b.bytes = c08Serialize(c, ip6, udp, pl)
			b.first, b.covStart = layers.LayerTypeIPv6, 40
			b.addrOffs = [][2]int{{8, 24}, {24, 40}}
		}
		if b.bytes == nil {
			return nil
		}
		b.ckOff, b.layerT, b.udp = b.covStart+6, layers.LayerTypeUDP, true
		if proto == "udp4" {
			b.pseudo = v4pseudo(17, len(b.bytes)-b.covStart)
		} else {
			b.pseudo = v6pseudo(17, len(b.bytes)-b.covStart)
		}
	case "icmp4":
		ic := &layers.ICMPv4{TypeCode: layers.CreateICMPv4TypeCode(uint8(r.Intn(256)), uint8(r.Intn(256))), Id: r.U16(), Seq: r.U16()}
		ip4.Protocol = layers.IPProtocolICMPv4
		b.bytes = c08Serialize(c, ip4, ic, pl)
		b.first, b.covStart, b.ckOff, b.layerT = layers.LayerTypeIPv4, 20, 22, layers.LayerTypeICMPv4
	case "icmp6":
		// echo request/reply so that the body is plain payload
		ic := &layers.ICMPv6{TypeCode: layers.CreateICMPv6TypeCode(uint8(128+r.Intn(2)), 0)}
		ic.SetNetworkLayerForChecksum(ip6)
		ip6.NextHeader = layers.IPProtocolICMPv6
		b.bytes = c08Serialize(c, ip6, ic, pl)
		b.first, b.covStart, b.ckOff, b.layerT = layers.LayerTypeIPv6, 40, 42, layers.LayerTypeICMPv6
		b.addrOffs = [][2]int{{8, 24}, {24, 40}}
		if b.bytes != nil {
			b.pseudo = v6pseudo(58, len(b.bytes)-40)
		}
	case "gre", "grekeyseq", "greroute-odd", "greroute-even":
		g := &layers.GRE{ChecksumPresent: true, Protocol: layers.EthernetType(0x88b5)}
		if proto == "grekeyseq" {
			g.KeyPresent, g.SeqPresent, g.Key, g.Seq = true, true, r.U32(), r.U32()
		}
		if strings.HasPrefix(proto, "greroute") {
			// source route entries: the header has an odd number of bytes when the routing information has, so the
			// payload then starts in the middle of a 16-bit word of the checksum
			n := 2 * r.Range(1, 4)
			if proto == "greroute-odd" {
				n--
			}
			info := r.Bytes(n)
			g.RoutingPresent = true
			g.GRERouting = &layers.GRERouting{AddressFamily: uint16(r.Range(1, 0x900)), SREOffset: uint8(r.Intn(n)), SRELength: uint8(n), RoutingInformation: info}
			if r.Bool() {
				m := 2 * r.Range(1, 3)
				g.GRERouting.Next = &layers.GRERouting{AddressFamily: uint16(r.Range(1, 0x900)), SRELength: uint8(m), RoutingInformation: r.Bytes(m)}
			}
			g.KeyPresent, g.Key = r.Bool(), r.U32()
		}
		ip4.Protocol = layers.IPProtocolGRE
		b.bytes = c08Serialize(c, ip4, g, pl)
		b.first, b.covStart, b.ckOff, b.layerT = layers.LayerTypeIPv4, 20, 24, layers.LayerTypeGRE
	}
	if b.bytes == nil {
		return nil
	}
	return b
}

// verify decodes bytes and runs the library's verification for the layer under test; it returns the result and
// whether the decoded layer covers the same byte range as when the packet was built.
func (b *c08Built) verify(bytes []byte) (res gopacket.ChecksumVerificationResult, sameRange bool, err error, p gopacket.Packet) {
	p = gopacket.NewPacket(bytes, b.first, gopacket.DecodeOptions{DecodeStreamsAsDatagrams: true})
	l := p.Layer(b.layerT)
	if l == nil {
		return res, false, nil, p
	}
	if nl := p.NetworkLayer(); nl != nil {
		if s, ok := l.(interface {
			SetNetworkLayerForChecksum(gopacket.NetworkLayer) error
		}); ok {
			s.SetNetworkLayerForChecksum(nl)
		}
	}
	lc, ok := l.(gopacket.LayerWithChecksum)
	if !ok {
		return res, false, fmt.Errorf("%v does not implement LayerWithChecksum", b.layerT), p
	}
	// covered range of the decoded layer
	if b.hdrOnly > 0 {
		sameRange = len(l.LayerContents()) == b.hdrOnly
	} else {
		sameRange = len(l.LayerContents())+len(l.LayerPayload()) == len(bytes)-b.covStart
		// and the network layer must still be the one in front of it (an IPv4 IHL/version flip moves everything)
		for _, x := range p.Layers() {
			if x == l {
				break
			}
			if x.LayerType() == b.first && len(x.LayerContents()) != b.covStart {
				sameRange = false
			}
		}
	}
	e, r := lc.VerifyChecksum()
	return r, sameRange, e, p
}

func c08Proto(c *vlib.Ctx) {
	idx := 0
	steerStep := 1
	fams := c.Pick(1, 6)
	for pi, proto := range c08Protos {
		// (a) steering: packet families per (proto, parity) walked through the whole 16-bit compensation word
		for pf := 0; pf < 2*fams; pf++ {
			parity := pf % 2
			idx++
			if (pi*2*fams+pf)%c.NBatch != c.Batch || !c.Begin(idx) {
				continue
			}
			r := c.Rand(uint64(idx))
			base := r.Bytes(20 + parity + 2*r.Intn(10))
			seen := map[uint16]bool{}
			famSeed := r.U64()
			for w := 0; w < 65536; w += steerStep {
				// identical addresses/ports/fields for the whole family: only the compensation word changes
				pl := append([]byte{}, base...)
				binary.BigEndian.PutUint16(pl[2:], uint16(w))
				id := -1
				if proto == "ip4hdr" {
					id = w // the payload is not covered by the header checksum: steer through the Id field
				}
				b := c08Build(c, vlib.NewRand(famSeed), proto, pl, id)
				if b == nil {
					break
				}
				stored := binary.BigEndian.Uint16(b.bytes[b.ckOff:])
				want := b.ref(b.bytes)
				if stored != want {
					c.Violation("written-checksum-wrong:"+proto, fmt.Sprintf("%s: serializer wrote %#04x, reference %#04x", proto, stored, want), hex.EncodeToString(b.bytes))
				}
				seen[stored] = true
				res, _, err, p := b.verify(b.bytes)
				if err != nil {
					c.Violation("verify-error:"+proto, "VerifyChecksum returned an error on a serialized packet: "+err.Error(), hex.EncodeToString(b.bytes))
				} else if !res.Valid {
					c.Violation(c08RejKey(proto, stored), fmt.Sprintf("%s: VerifyChecksum rejects the checksum the serializer wrote (stored %#04x, Correct=%#x)", proto, stored, res.Correct), hex.EncodeToString(b.bytes))
				} else {
					if e2, mm := p.VerifyChecksums(); e2 != nil || len(mm) != 0 {
						c.Violation("packet-verifychecksums:"+proto, fmt.Sprintf("Packet.VerifyChecksums on a serialized packet: err=%v mismatches=%d", e2, len(mm)), hex.EncodeToString(b.bytes))
					}
				}
				c.Evals(1)
				c.NonTrivial(vlib.HashBytes(b.bytes))
				if w == 0 && c.WantSample() {
					c.Sample(map[string]any{"proto": proto, "bytes": hex.EncodeToString(b.bytes), "stored_checksum": stored})
				}
			}
			c.Count("steered_packets", 65536/steerStep)
			c.Count("distinct_checksum_outcomes_"+proto, len(seen))
			if seen[0xffff] {
				c.Count("outcome_0xffff_seen", 1)
			}
			if seen[0] {
				c.Count("outcome_0x0000_seen", 1)
			}
			c.End()
		}
	}
	// (b) in the quick tier the steering is strided; visit the special outcomes explicitly by solving for the word
	for pi, proto := range c08Protos {
		idx++
		if pi%c.NBatch != c.Batch || !c.Begin(idx) {
			continue
		}
		for parity := 0; parity < 2; parity++ {
			base := c.Rand(uint64(idx), uint64(parity)).Bytes(24 + parity)
			for _, target := range []uint16{0x0000, 0xffff, 0x0001, 0xfffe, 0x8000, 0x7fff, 0x00ff, 0xff00} {
				// one's complement: find w such that the stored checksum becomes target. Build with w=0, then adjust.
				mk := func(w uint16) *c08Built {
					pl := append([]byte{}, base...)
					binary.BigEndian.PutUint16(pl[2:], w)
					id := -1
					if proto == "ip4hdr" {
						id = int(w)
					}
					return c08Build(c, vlib.NewRand(99), proto, pl, id)
				}
				b0 := mk(0)
				if b0 == nil {
					break
				}
				c0 := b0.ref(b0.bytes)
				// with word w the covered sum is S0 (+) w where S0 = ^c0; stored == target  <=>  w = ^target (+) c0
				w := pk.Sum1071(nil, uint64(^target)+uint64(c0))
				for _, cand := range []uint16{w, 0, 0xffff} {
					b := mk(cand)
					stored := binary.BigEndian.Uint16(b.bytes[b.ckOff:])
					want := b.ref(b.bytes)
					if stored != want {
						c.Violation("written-checksum-wrong:"+proto, fmt.Sprintf("%s: serializer wrote %#04x, reference %#04x", proto, stored, want), hex.EncodeToString(b.bytes))
					}
					res, _, err, _ := b.verify(b.bytes)
					if err == nil && !res.Valid {
						c.Violation(c08RejKey(proto, stored), fmt.Sprintf("%s: VerifyChecksum rejects the checksum the serializer wrote (stored %#04x, Correct=%#x)", proto, stored, res.Correct), hex.EncodeToString(b.bytes))
					}
					if stored == target {
						c.Count("special_outcomes_hit", 1)
						if stored == 0xffff {
							c.Count("outcome_0xffff_seen", 1)
						}
						if stored == 0 {
							c.Count("outcome_0x0000_seen", 1)
						}
					}
					c.Evals(1)
				}
			}
		}
		c.End()
	}
	// (c) random packets + every single-bit flip of every covered bit
	n := c.Pick(40, 400)
	for i := 0; i < n; i++ {
		for pi, proto := range c08Protos {
			idx++
			if (i*len(c08Protos)+pi)%c.NBatch != c.Batch || !c.Begin(idx) {
				continue
			}
			r := c.Rand(uint64(idx))
			pl := r.Bytes(r.Intn(48))
			b := c08Build(c, r, proto, pl, -1)
			if b == nil {
				c.End()
				continue
			}
			res, _, err, _ := b.verify(b.bytes)
			if err != nil || !res.Valid {
				c.Violation(c08RejKey(proto, binary.BigEndian.Uint16(b.bytes[b.ckOff:])), fmt.Sprintf("%s: verification of a freshly serialized packet: err=%v valid=%v", proto, err, res.Valid), hex.EncodeToString(b.bytes))
			}
			flips, skipped, skippedErr, skippedNone := 0, 0, 0, 0
			for bit := 0; bit < len(b.bytes)*8; bit++ {
				byteI := bit / 8
				covered := false
				if b.hdrOnly > 0 {
					covered = byteI < b.hdrOnly
				} else {
					covered = byteI >= b.covStart
					for _, ao := range b.addrOffs {
						if byteI >= ao[0] && byteI < ao[1] {
							covered = true
						}
					}
				}
				if !covered {
					continue
				}
				fb := append([]byte{}, b.bytes...)
				fb[byteI] ^= 1 << uint(bit%8)
				res, same, err, fp := b.verify(fb)
				if !same || err != nil {
					skipped++ // the flip changed which bytes the layer covers (length/IHL/offset/flag fields): not comparable
					continue
				}
				if fp.ErrorLayer() != nil {
					// the flip made the packet malformed: the layer under test is only half decoded (the library documents
					// such layers as untrustworthy), so there is no verification result to judge
					skippedErr++
					continue
				}
				if g, ok := fp.Layer(layers.LayerTypeGRE).(*layers.GRE); ok && b.layerT == layers.LayerTypeGRE && !g.ChecksumPresent {
					// the flipped bit was GRE's "checksum present" flag: the protocol now defines the packet as carrying none
					if !res.Valid {
						c.Violation("gre-no-checksum-rejected", "GRE without checksum bit reported as mismatch", hex.EncodeToString(fb))
					}
					skippedNone++
					continue
				}
				flips++
				stored := binary.BigEndian.Uint16(fb[b.ckOff:])
				if b.udp && stored == 0 {
					// protocol-defined "no checksum": must be accepted
					if !res.Valid {
						c.Violation("udp-zero-checksum-rejected", "UDP stored checksum 0 means 'none' but verification reports a mismatch", hex.EncodeToString(fb))
					}
					continue
				}
				want := b.ref(fb)
				if res.Valid {
					c.Violation("verify-accepts-bitflip:"+proto, fmt.Sprintf("%s: bit %d flipped, verification still says valid", proto, bit), hex.EncodeToString(fb))
				} else if uint16(res.Correct) != want || res.Correct > 0xffff {
					c.Violation("verify-reports-wrong-expected:"+proto, fmt.Sprintf("%s: bit %d flipped: Correct=%#x, reference %#04x", proto, bit, res.Correct, want), hex.EncodeToString(fb))
				} else if uint16(res.Actual) != stored {
					c.Violation("verify-reports-wrong-actual:"+proto, fmt.Sprintf("%s: Actual=%#x, stored %#04x", proto, res.Actual, stored), hex.EncodeToString(fb))
				}
			}
			c.Count("bitflips_checked", flips)
			c.Count("bitflips_skipped_range_changed", skipped)
			c.Count("bitflips_skipped_decode_error", skippedErr)
			c.Count("bitflips_to_no_checksum_flag", skippedNone)
			c.Evals(flips)
			c.NonTrivial(vlib.HashBytes(b.bytes))
			c.End()
		}
	}
	// (d) GRE without the checksum bit: stored value is 'no checksum'
	idx++
	if c.Batch == 0 && c.Begin(idx) {
		r := c.Rand(uint64(idx))
		for k := 0; k < 50; k++ {
			g := &layers.GRE{Protocol: layers.EthernetType(0x88b5), KeyPresent: r.Bool(), Key: r.U32()}
			ip4 := &layers.IPv4{Version: 4, TTL: 9, Protocol: layers.IPProtocolGRE, SrcIP: net.IP(r.Bytes(4)), DstIP: net.IP(r.Bytes(4))}
			bs := c08Serialize(c, ip4, g, gopacket.Payload(r.Bytes(r.Intn(20))))
			if bs == nil {
				continue
			}
			p := gopacket.NewPacket(bs, layers.LayerTypeIPv4, gopacket.Default)
			if l, ok := p.Layer(layers.LayerTypeGRE).(*layers.GRE); ok {
				if err, res := l.VerifyChecksum(); err != nil || !res.Valid {
					c.Violation("gre-no-checksum-rejected", "GRE without checksum bit reported as mismatch", hex.EncodeToString(bs))
				}
				c.Count("gre_without_checksum_checked", 1)
			}
		}
		c.End()
	}
}

// c08RejKey names the finding "verification rejects a written checksum"; only the two one's-complement zero
// representations are distinguished, every other stored value is one class.
func c08RejKey(proto string, stored uint16) string {
	switch stored {
	case 0, 0xffff:
		return fmt.Sprintf("verify-rejects-written:%s:stored=%#04x", proto, stored)
	}
	return "verify-rejects-written:" + proto + ":stored=other"
}

// ---- 6. jumbograms whose one's complement sum lies around 2^32 ------------------------------------------------------------
//
// Verification subtracts the stored checksum from the sum over the packet; sums above 2^32 are folded on the way, and a
// fold that yields less than the stored value makes that subtraction wrap. Only packets of more than 128 KiB of large
// words reach such sums: IPv6 jumbograms filled with 0xff, walked across the boundary with a compensation word.

func c08Jumbo(c *vlib.Ctx) {
	protos := []string{"udp6", "tcp6", "icmp6"}
	idx := 0
	for pi, proto := range protos {
		for ni := 0; ni < c.Pick(8, 16); ni++ {
			idx++
			if (pi*16+ni)%c.NBatch != c.Batch || !c.Begin(idx) {
				continue
			}
			r := c.Rand(uint64(idx), 6)
			src6, dst6 := net.IP(r.Bytes(16)), net.IP(r.Bytes(16))
			sp, dp := r.U16(), r.U16()
			// choose the payload length so that the plain 64-bit sum of the covered words (pseudo-header included) lies
			// within one compensation word of 2^32: 65536 words of 0xffff give 2^32-65536, addresses and ports add a few
			// words, every two bytes less take 0xffff away
			raw := uint64(0)
			for _, a := range [][]byte{src6, dst6} {
				for i := 0; i < 16; i += 2 {
					raw += uint64(binary.BigEndian.Uint16(a[i:]))
				}
			}
			raw += uint64(sp) + uint64(dp) + 65536*0xffff
			k := (int64(raw) - (1<<32 - 0x8000)) / 0xffff
			n := 131072 - 2*(int(k)+ni-c.Pick(8, 16)/2)
			step := c.Pick(2048, 512)
			for w := r.Intn(step); w < 65536; w += step {
				pl := bytes.Repeat([]byte{0xff}, n)
				binary.BigEndian.PutUint16(pl[2:], uint16(w))
				ip6 := &layers.IPv6{Version: 6, HopLimit: 64, SrcIP: src6, DstIP: dst6}
				b := &c08Built{name: proto + "-jumbo", first: layers.LayerTypeIPv6, covStart: 48, addrOffs: [][2]int{{8, 24}, {24, 40}}}
				var l4 gopacket.SerializableLayer
				switch proto {
				case "udp6":
					u := &layers.UDP{SrcPort: layers.UDPPort(sp), DstPort: layers.UDPPort(dp)}
					u.SetNetworkLayerForChecksum(ip6)
					ip6.NextHeader = layers.IPProtocolUDP
					l4, b.ckOff, b.layerT, b.udp = u, 48+6, layers.LayerTypeUDP, true
				case "tcp6":
					t := &layers.TCP{SrcPort: layers.TCPPort(sp), DstPort: layers.TCPPort(dp), Seq: 1, ACK: true, Window: 1000}
					t.SetNetworkLayerForChecksum(ip6)
					ip6.NextHeader = layers.IPProtocolTCP
					l4, b.ckOff, b.layerT = t, 48+16, layers.LayerTypeTCP
				default:
					ic := &layers.ICMPv6{TypeCode: layers.CreateICMPv6TypeCode(128, 0)}
					ic.SetNetworkLayerForChecksum(ip6)
					ip6.NextHeader = layers.IPProtocolICMPv6
					l4, b.ckOff, b.layerT = ic, 48+2, layers.LayerTypeICMPv6
				}
				b.bytes = c08Serialize(c, ip6, l4, gopacket.Payload(pl))
				if b.bytes == nil {
					break
				}
				nh := map[string]uint8{"udp6": 17, "tcp6": 6, "icmp6": 58}[proto]
				b.pseudo = pk.PseudoV6(pk.A16(src6), pk.A16(dst6), nh, len(b.bytes)-48)
				stored := binary.BigEndian.Uint16(b.bytes[b.ckOff:])
				if want := b.ref(b.bytes); stored != want {
					c.Violation("written-checksum-wrong:"+b.name, fmt.Sprintf("%s: serializer wrote %#04x, reference %#04x", b.name, stored, want), map[string]any{"payload_len": n, "word": w})
					break
				}
				res, _, err, _ := b.verify(b.bytes)
				if err != nil || !res.Valid {
					c.Violation("verify-rejects-written:"+b.name, fmt.Sprintf("%s: verification of a freshly serialized jumbogram: err=%v valid=%v", b.name, err, res.Valid), map[string]any{"payload_len": n, "word": w})
					break
				}
				c.Evals(1)
				// single bit flips in the payload (the covered range cannot change): reported invalid, with the reference value
				bad := false
				for k := 0; k < 24 && !bad; k++ {
					bit := (len(b.bytes)-2)*8 + k // the 16 bits of the last word, then PRNG bits of the payload
					if k >= 16 {
						bit = (48+40)*8 + r.Intn((n-64)*8)
					}
					fb := append([]byte{}, b.bytes...)
					fb[bit/8] ^= 1 << uint(7-bit%8)
					fr, _, ferr, _ := b.verify(fb)
					want := b.ref(fb)
					c.Evals(1)
					switch {
					case ferr != nil:
						// the flipped packet no longer decodes to this layer: nothing to compare
					case fr.Valid:
						c.Violation("bit-flip-accepted:"+b.name, fmt.Sprintf("%s: bit %d flipped and the jumbogram still verifies", b.name, bit), map[string]any{"payload_len": n, "word": w})
						bad = true
					case fr.Correct != uint32(want):
						c.Violation("verify-reports-wrong-expected:"+b.name, fmt.Sprintf("%s: bit %d flipped: Correct=%#04x, reference %#04x", b.name, bit, fr.Correct, want), map[string]any{"payload_len": n, "word": w, "stored": stored})
						bad = true
					}
				}
				c.Count("jumbograms_verified", 1)
				c.NonTrivial(vlib.Mix(uint64(idx), uint64(w), 66))
				if bad {
					break
				}
			}
			c.End()
		}
	}
}
