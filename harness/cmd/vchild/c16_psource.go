package main

import (
	"context"
	"encoding/binary"
	"errors"
	"fmt"
	"io"
	"os"
	"runtime"
	"strings"
	"sync/atomic"
	"syscall"
	"time"

	"github.com/gopacket/gopacket"
	"github.com/gopacket/gopacket/layers"

	"verif/harness/internal/pk"
	"verif/harness/internal/sig"
	"verif/harness/internal/vlib"
)

func init() {
	vlib.Register("C16", "pull", c16Pull)
	vlib.Register("C16", "channel", c16Channel)
	vlib.Register("C16", "cancel", c16Cancel)
}

type timeoutErr struct{}

func (timeoutErr) Error() string   { return "scripted timeout" }
func (timeoutErr) Timeout() bool   { return true }
func (timeoutErr) Temporary() bool { return true }

type tempErr struct{ n int }

func (e tempErr) Error() string { return fmt.Sprintf("scripted transient error %d", e.n) }

var c16Terminals = []error{io.EOF, io.ErrUnexpectedEOF, io.ErrNoProgress, io.ErrClosedPipe, io.ErrShortBuffer, syscall.EBADF,
	errors.New("read: use of closed file"), fmt.Errorf("wrapped: %w", io.EOF),
	// the same ends of input as real sources report them: wrapped more than once, joined with another error, inside the
	// os/net error structs, or recognisable only through an Is method
	fmt.Errorf("reading capture: %w", fmt.Errorf("block 7: %w", io.EOF)),
	errors.Join(errors.New("flush failed"), io.ErrUnexpectedEOF),
	fmt.Errorf("%w (after %w)", io.ErrClosedPipe, errors.New("reset")),
	&os.PathError{Op: "read", Path: "/dev/net0", Err: &os.SyscallError{Syscall: "read", Err: syscall.EBADF}},
	c16IsEOF{}}

// c16IsEOF is an error of a data source's own type that declares itself an end of input through the Is method.
type c16IsEOF struct{}

func (c16IsEOF) Error() string        { return "device detached" }
func (c16IsEOF) Is(target error) bool { return target == io.EOF }

type c16Item struct {
	id   int // packet id, -1 for errors
	data []byte
	ci   gopacket.CaptureInfo
	err  error
	term bool
	hold bool // the read blocks until the harness releases it (cancel tests)
}

// c16Source replays a script. In zero-copy mode it really reuses one buffer and scribbles over it on every read.
type c16Source struct {
	items   []c16Item
	pos     int32
	zero    bool
	buf     []byte
	reads   int32 // number of reads started
	release chan struct{}
	started chan int
	after   error // what to return once the script is exhausted
}

func (s *c16Source) next() (data []byte, ci gopacket.CaptureInfo, err error) {
	atomic.AddInt32(&s.reads, 1)
	i := int(atomic.AddInt32(&s.pos, 1)) - 1
	if s.zero {
		for k := range s.buf {
			s.buf[k] = 0xEE // whatever the previous packet was, it is gone now
		}
	}
	if i >= len(s.items) {
		return nil, ci, s.after
	}
	it := s.items[i]
	if it.hold && s.started != nil {
		s.started <- i
		<-s.release
	}
	if it.err != nil {
		return nil, ci, it.err
	}
	if s.zero {
		n := copy(s.buf, it.data)
		return s.buf[:n], it.ci, nil
	}
	return append([]byte{}, it.data...), it.ci, nil
}

func (s *c16Source) ReadPacketData() ([]byte, gopacket.CaptureInfo, error)         { return s.next() }
func (s *c16Source) ZeroCopyReadPacketData() ([]byte, gopacket.CaptureInfo, error) { return s.next() }

func c16Packet(r *vlib.Rand, id int) c16Item {
	payload := make([]byte, 8+r.Intn(40))
	if r.Chance(1, 8) {
		payload = make([]byte, r.Range(1440, 9000)) // around and above the pool block size: the pooled path must still copy
	}
	binary.BigEndian.PutUint64(payload, uint64(id)|0xabcd<<48)
	r.Fill(payload[8:])
	src, dst := pk.A4(r.Bytes(4)), pk.A4(r.Bytes(4))
	full := pk.Eth(pk.M6(r.Bytes(6)), pk.M6(r.Bytes(6)), 0x0800, pk.IPv4(pk.IPv4H{TTL: 3, Proto: 17, Src: src, Dst: dst, ID: uint16(id)},
		pk.UDP(uint16(61000+id%500), 61999, payload, func(n int) []byte { return pk.PseudoV4(src, dst, 17, n) })))
	it := c16Item{id: id}
	caplen := len(full)
	if r.Chance(1, 4) {
		caplen = r.Range(14+20+8+8, len(full)) // snapped, the id survives
	}
	it.data = full[:caplen]
	wire := len(full)
	if caplen == len(full) && r.Chance(1, 5) {
		// the snap length cut only a trailer behind the IP datagram (frame check sequence, padding): every header and the
		// payload are complete, no decoder can notice - the mark has to come from caplen < len alone
		wire += r.Range(1, 40)
	}
	it.ci = gopacket.CaptureInfo{Timestamp: time.Unix(1_500_000_000+int64(id), int64(id)*1000), CaptureLength: caplen, Length: wire, InterfaceIndex: id % 7}
	if r.Chance(1, 10) {
		it.ci.AncillaryData = []interface{}{id}
	}
	return it
}

func c16ID(p gopacket.Packet) int {
	if app := p.ApplicationLayer(); app != nil && len(app.Payload()) >= 8 {
		return int(binary.BigEndian.Uint64(app.Payload()) & 0xffffffff)
	}
	// snapped packets may end inside the UDP payload: take the id from the IP header
	if ip, ok := p.NetworkLayer().(*layers.IPv4); ok && ip != nil {
		return int(ip.Id)
	}
	return -1
}

func c16Script(r *vlib.Rand, n int, terminal bool) []c16Item {
	var items []c16Item
	id := 0
	timeouts := 0
	for len(items) < n {
		switch x := r.Intn(20); {
		case x == 0 && timeouts < 6:
			items = append(items, c16Item{id: -1, err: timeoutErr{}})
			timeouts++
		case x == 1 && timeouts < 6:
			items = append(items, c16Item{id: -1, err: tempErr{len(items)}})
			timeouts++
		default:
			items = append(items, c16Packet(r, id))
			id++
		}
	}
	if terminal {
		items = append(items, c16Item{id: -1, err: c16Terminals[r.Intn(len(c16Terminals))], term: true})
	}
	return items
}

type c16Opts struct {
	zero bool
	do   gopacket.DecodeOptions
}

func (o c16Opts) String() string {
	return fmt.Sprintf("zeroCopySource=%v lazy=%v nocopy=%v pool=%v", o.zero, o.do.Lazy, o.do.NoCopy, o.do.Pool)
}

func c16MkSource(items []c16Item, o c16Opts) (*c16Source, *gopacket.PacketSource) {
	src := &c16Source{items: items, zero: o.zero, buf: make([]byte, 16384), after: io.EOF}
	var ps *gopacket.PacketSource
	if o.zero {
		ps = gopacket.NewZeroCopyPacketSource(src, layers.LayerTypeEthernet)
	} else {
		ps = gopacket.NewPacketSource(src, layers.LayerTypeEthernet)
	}
	ps.DecodeOptions = o.do
	return src, ps
}

func c16AllOpts(r *vlib.Rand) c16Opts {
	return c16Opts{zero: r.Bool(), do: gopacket.DecodeOptions{Lazy: r.Bool(), NoCopy: r.Chance(1, 3), Pool: r.Chance(1, 3)}}
}

// c16CheckPacket compares a delivered packet with what the script produced.
func c16CheckPacket(c *vlib.Ctx, p gopacket.Packet, it c16Item, o c16Opts, where string) {
	m := p.Metadata()
	if m.CaptureInfo.Timestamp != it.ci.Timestamp || m.CaptureInfo.CaptureLength != it.ci.CaptureLength || m.CaptureInfo.Length != it.ci.Length || m.CaptureInfo.InterfaceIndex != it.ci.InterfaceIndex || len(m.CaptureInfo.AncillaryData) != len(it.ci.AncillaryData) {
		c.Violation("capture-info-differs:"+where, fmt.Sprintf("packet %d delivered with CaptureInfo %+v, read with %+v", it.id, m.CaptureInfo, it.ci), o.String())
	}
	ref := gopacket.NewPacket(it.data, layers.LayerTypeEthernet, gopacket.Default)
	wantTrunc := it.ci.CaptureLength < it.ci.Length || ref.Metadata().Truncated
	_ = p.Layers()
	if p.Metadata().Truncated != wantTrunc {
		c.Violation("truncated-flag:"+where, fmt.Sprintf("packet %d: Truncated=%v, caplen=%d len=%d decoder-detected=%v", it.id, p.Metadata().Truncated, it.ci.CaptureLength, it.ci.Length, ref.Metadata().Truncated), o.String())
	}
}

// ---- pull interface: NextPacket mirrors the script item by item --------------------------------------------------------

func c16Pull(c *vlib.Ctx) {
	n := c.Pick(250, 6000)
	for i := 0; i < n; i++ {
		if !c.Begin(i) {
			continue
		}
		r := c.Rand(uint64(i))
		items := c16Script(r, r.Range(5, 120), r.Bool())
		o := c16AllOpts(r)
		_, ps := c16MkSource(items, o)
		type kept struct {
			p  gopacket.Packet
			s  sig.PacketSig
			it c16Item
		}
		var keep []kept
		aliasOK := o.zero && o.do.NoCopy // the caller asked for aliasing: later reads overwrite the packet by design
		for k, it := range items {
			var p gopacket.Packet
			var err error
			if pi := vlib.Guard(func() { p, err = ps.NextPacket() }); pi != nil {
				c.Violation(pi.Key, "NextPacket panicked: "+pi.Value, o.String())
				break
			}
			if it.err != nil {
				if err != it.err || p != nil {
					c.Violation("pull-error-not-surfaced", fmt.Sprintf("item %d: source returned %v, NextPacket returned (%v, %v)", k, it.err, p != nil, err), o.String())
				}
				c.Count("pull_errors_surfaced", 1)
				continue
			}
			if err != nil || p == nil {
				c.Violation("pull-packet-lost", fmt.Sprintf("item %d is a packet, NextPacket returned error %v", k, err), o.String())
				continue
			}
			if got := c16ID(p); got != it.id&0xffff && got != it.id {
				c.Violation("pull-order", fmt.Sprintf("item %d: expected packet %d, got %d", k, it.id, got), o.String())
			}
			c16CheckPacket(c, p, it, o, "pull")
			if !aliasOK {
				keep = append(keep, kept{p, sig.Packet(p, true), it})
			}
			c.Count("pull_packets", 1)
		}
		for _, kp := range keep {
			if ok, what := kp.s.Equal(sig.Packet(kp.p, true)); !ok {
				c.Violation("delivered-packet-altered:pull", fmt.Sprintf("packet %d changed after later reads of the data source: %s", kp.it.id, what), o.String())
				break
			}
		}
		c.NonTrivial(vlib.Mix(uint64(i), uint64(c.Batch), 161))
		if c.WantSample() {
			c.Sample(map[string]any{"interface": "NextPacket", "items": len(items), "options": o.String()})
		}
		c.End()
	}
}

// ---- channel interface -----------------------------------------------------------------------------------------------

func c16Goroutines(fn string) int {
	buf := make([]byte, 1<<20)
	snap := string(buf[:runtime.Stack(buf, true)])
	return strings.Count(snap, fn)
}

func c16Channel(c *vlib.Ctx) {
	n := c.Pick(60, 2500)
	for i := 0; i < n; i++ {
		if !c.Begin(i) {
			continue
		}
		r := c.Rand(uint64(i))
		ln := r.Range(5, 300)
		if i%40 == 7 {
			ln = 2500 // more than the 1000-slot channel
		}
		items := c16Script(r, ln, true)
		o := c16AllOpts(r)
		src, ps := c16MkSource(items, o)
		if o.zero && o.do.NoCopy {
			// must be refused: panic (or at least never deliver a packet)
			var ch chan gopacket.Packet
			pi := vlib.Guard(func() { ch = ps.Packets() })
			if pi == nil {
				delivered := 0
				if ch != nil {
					for range ch {
						delivered++
					}
				}
				c.Violation("zero-copy-nocopy-not-refused", fmt.Sprintf("Packets() accepted a zero-copy source with NoCopy and delivered %d packets whose bytes the source keeps overwriting", delivered), o.String())
			}
			c.Count("zero_copy_nocopy_refusals_checked", 1)
			c.End()
			continue
		}
		var ch chan gopacket.Packet
		if pi := vlib.Guard(func() { ch = ps.Packets() }); pi != nil {
			c.Violation(pi.Key, "Packets() panicked: "+pi.Value, o.String())
			c.End()
			continue
		}
		var want []c16Item
		for _, it := range items {
			if it.err == nil {
				want = append(want, it)
			}
		}
		slow := r.Chance(1, 4)
		got := 0
		type kept struct {
			p gopacket.Packet
			s sig.PacketSig
		}
		var keep []kept
		closed := false
		timer := time.NewTimer(60 * time.Second)
	recv:
		for {
			select {
			case p, ok := <-ch:
				if !ok {
					closed = true
					break recv
				}
				if got >= len(want) {
					c.Violation("channel-extra-packet", "channel delivered more packets than the source produced", o.String())
					break recv
				}
				it := want[got]
				if id := c16ID(p); id != it.id&0xffff && id != it.id {
					c.Violation("channel-order", fmt.Sprintf("delivery %d: expected packet %d, got %d (lost, duplicated or reordered)", got, it.id, id), o.String())
					break recv
				}
				c16CheckPacket(c, p, it, o, "channel")
				if len(keep) < 200 {
					keep = append(keep, kept{p, sig.Packet(p, true)})
				}
				got++
				if slow && got%50 == 0 {
					time.Sleep(200 * time.Microsecond)
				}
			case <-timer.C:
				// liveness is decided from a snapshot: is the background goroutine parked forever?
				if c16Goroutines("packetsToChannel") > 0 {
					c.Violation("channel-not-closed", fmt.Sprintf("after %d of %d packets and the terminal error the channel was not closed (background goroutine still alive)", got, len(want)), o.String())
				} else {
					c.Inconclusive("channel receive timed out without a background goroutine")
				}
				break recv
			}
		}
		timer.Stop()
		if closed && got != len(want) {
			c.Violation("channel-closed-early-or-lost", fmt.Sprintf("channel closed after %d packets, the source produced %d before its terminal error", got, len(want)), o.String())
		}
		if closed {
			if int(atomic.LoadInt32(&src.pos)) != len(items) {
				c.Violation("channel-reads-after-terminal-error", fmt.Sprintf("source was read %d times, the script has %d items ending in a terminal error", src.pos, len(items)), o.String())
			}
			c.Count("channels_closed_after_terminal_error", 1)
		}
		for _, kp := range keep {
			if ok, what := kp.s.Equal(sig.Packet(kp.p, true)); !ok {
				c.Violation("delivered-packet-altered:channel", "a packet received from the channel changed after later reads of the data source: "+what, o.String())
				break
			}
		}
		c.Count("channel_packets", got)
		c.NonTrivial(vlib.Mix(uint64(i), uint64(c.Batch), 162))
		if c.WantSample() {
			c.Sample(map[string]any{"interface": "Packets()", "items": len(items), "terminal_error": items[len(items)-1].err.Error(), "options": o.String()})
		}
		c.End()
	}
}

// ---- cancellation at every script position -------------------------------------------------------------------------------

func c16Cancel(c *vlib.Ctx) {
	n := c.Pick(150, 2500)
	for i := 0; i < n; i++ {
		if !c.Begin(i) {
			continue
		}
		r := c.Rand(uint64(i))
		ln := r.Range(3, 40)
		items := c16Script(r, ln, false)
		cancelAt := i % (ln + 1) // enumerated over positions
		inRead := r.Bool()       // cancel while a read is in progress, or between reads
		o := c16AllOpts(r)
		o.do.NoCopy = false
		src, ps := c16MkSource(items, o)
		src.after = timeoutErr{} // an idle capture handle: timeouts forever
		if inRead && cancelAt < len(items) {
			src.items[cancelAt].hold = true
			src.started = make(chan int, 1)
			src.release = make(chan struct{})
		}
		ctx, cancel := context.WithCancel(context.Background())
		ch := ps.PacketsCtx(ctx)
		got := 0
		// consume up to the cancel position
		cancelled := false
		readsAtCancel := int32(0)
		deadline := time.After(30 * time.Second)
	loop:
		for !cancelled {
			if src.started != nil {
				select {
				case <-src.started:
					// the background reader is inside read #cancelAt right now
					cancel()
					readsAtCancel = atomic.LoadInt32(&src.reads)
					cancelled = true
					close(src.release)
				case p, ok := <-ch:
					if !ok {
						break loop
					}
					_ = p
					got++
				case <-deadline:
					break loop
				}
			} else {
				if int(atomic.LoadInt32(&src.pos)) >= cancelAt {
					cancel()
					readsAtCancel = atomic.LoadInt32(&src.reads)
					cancelled = true
					break
				}
				select {
				case _, ok := <-ch:
					if !ok {
						break loop
					}
					got++
				case <-time.After(time.Millisecond):
				case <-deadline:
					break loop
				}
			}
		}
		if !cancelled {
			cancel()
			c.Inconclusive("cancel point not reached")
			c.End()
			continue
		}
		// after cancel: the channel must get closed (the goroutine's only exit), and at most one more read may start
		closed := false
		wait := 200 * time.Millisecond
		for !closed {
			select {
			case _, ok := <-ch:
				if !ok {
					closed = true
				}
			case <-time.After(wait):
				buf := make([]byte, 1<<20)
				snap := string(buf[:runtime.Stack(buf, true)])
				alive := strings.Contains(snap, "packetsToChannel")
				if !alive {
					// the goroutine is gone but the (empty) channel is still open: its deferred close did not run
					c.Violation("cancel-goroutine-gone-channel-open", "the background goroutine exited without closing the channel", map[string]any{"options": o.String(), "cancel_at": cancelAt})
					closed = true
					break
				}
				wait *= 2
				if wait > 10*time.Second {
					c.Violation("cancel-does-not-stop-reader", "10 s after the context was cancelled the background goroutine is still alive and the channel is not closed", map[string]any{"options": o.String(), "cancel_at": cancelAt, "in_read": inRead, "goroutines": snap[:min(len(snap), 6000)]})
					closed = true
				}
			}
		}
		extra := atomic.LoadInt32(&src.reads) - readsAtCancel
		if extra > 1 {
			c.Violation("reads-after-cancel", fmt.Sprintf("%d source reads were started after cancel() returned", extra), map[string]any{"options": o.String(), "cancel_at": cancelAt, "in_read": inRead})
		}
		c.Count("cancellations", 1)
		if inRead {
			c.Count("cancellations_during_a_read", 1)
		}
		c.CountIn("reads_started_after_cancel", fmt.Sprint(extra), 1)
		c.NonTrivial(vlib.Mix(uint64(i), uint64(c.Batch), 163))
		c.End()
	}
	// consumer stopped: the source delivers more packets than the channel buffers, nobody receives, the background reader
	// ends up blocked handing over a packet; cancelling must still stop it (and close the channel) although no one ever
	// receives again
	for i := 0; i < c.Pick(3, 30); i++ {
		if !c.Begin(100000 + i) {
			continue
		}
		r := c.Rand(uint64(i), 4242)
		o := c16AllOpts(r)
		o.do.NoCopy = false
		var items []c16Item
		total := 1001 + r.Range(1, 40)
		for id := 0; id < total; id++ {
			items = append(items, c16Packet(r, id))
		}
		base := c16Goroutines("packetsToChannel")
		src, ps := c16MkSource(items, o)
		src.after = timeoutErr{}
		ctx, cancel := context.WithCancel(context.Background())
		ch := ps.PacketsCtx(ctx)
		taken := r.Intn(3) // a few packets are received first, then the consumer stops for good
		for k := 0; k < taken; k++ {
			<-ch
		}
		// wait until the reader cannot make progress: 1000 packets buffered and one more read
		blocked := false
		for w := 0; w < 3000 && !blocked; w++ {
			if len(ch) == cap(ch) && int(atomic.LoadInt32(&src.pos)) >= cap(ch)+taken+1 {
				blocked = true
				break
			}
			time.Sleep(2 * time.Millisecond)
		}
		if !blocked {
			cancel()
			c.Inconclusive("the channel never filled up")
			c.End()
			continue
		}
		time.Sleep(5 * time.Millisecond) // let the goroutine reach the hand-over of packet #1001
		cancel()
		readsAtCancel := atomic.LoadInt32(&src.reads)
		gone := false
		wait := 20 * time.Millisecond
		snap := ""
		for !gone {
			time.Sleep(wait)
			buf := make([]byte, 1<<20)
			snap = string(buf[:runtime.Stack(buf, true)])
			if strings.Count(snap, "packetsToChannel") <= base {
				gone = true
				break
			}
			wait *= 2
			if wait > 10*time.Second {
				break
			}
		}
		if !gone {
			c.Violation("cancel-does-not-stop-reader:consumer-stopped", "the consumer stopped receiving with the channel full; 10 s after the context was cancelled the background goroutine is still blocked and the channel is not closed", map[string]any{"options": o.String(), "packets": total, "received_before_stopping": taken, "goroutines": snap[:min(len(snap), 6000)]})
			for range ch { // release it so that later cases start clean
			}
		} else {
			// the buffered packets are still there, in order, then the channel is closed
			n, okOrder := 0, true
			for p := range ch {
				if c16ID(p) != taken+n {
					okOrder = false
				}
				n++
			}
			if !okOrder || n > cap(ch)+1 {
				c.Violation("cancel-with-full-channel-order", fmt.Sprintf("after cancellation with a full channel the %d buffered packets are not the next ones in order", n), map[string]any{"options": o.String()})
			}
			if extra := atomic.LoadInt32(&src.reads) - readsAtCancel; extra > 1 {
				c.Violation("reads-after-cancel", fmt.Sprintf("%d source reads were started after cancel() returned", extra), map[string]any{"options": o.String(), "consumer": "stopped"})
			}
		}
		c.Count("cancellations_with_stopped_consumer", 1)
		c.NonTrivial(vlib.Mix(uint64(i), uint64(c.Batch), 4242))
		c.End()
	}
	// every background goroutine must be gone by now
	time.Sleep(50 * time.Millisecond)
	if k := c16Goroutines("packetsToChannel"); k > 0 {
		time.Sleep(2 * time.Second)
		if k = c16Goroutines("packetsToChannel"); k > 0 {
			c.Begin(1 << 30)
			c.Violation("background-goroutines-leaked", fmt.Sprintf("%d packetsToChannel goroutines are still alive after all channels were closed/cancelled", k), nil)
			c.End()
		}
	}
}
