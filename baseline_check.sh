#!/bin/bash
# runs the repository's own suite with the verif tag OFF and checks that every test listed as stable_pass in
# /root/.vp/BASELINE.json passes
. /verif/env.sh
cd /repo && $VGO test -json -vet=off -count=1 -timeout 25m ./... > /tmp/baseline.json 2>/dev/null
python3 - <<'PY'
import json
base=json.load(open('/root/.vp/BASELINE.json'))
want=set(base['stable_pass'])
res={}
for l in open('/tmp/baseline.json'):
    try: e=json.loads(l)
    except: continue
    if e.get('Test') and e.get('Action') in ('pass','fail','skip'):
        res[e['Package']+'::'+e['Test']]=e['Action']
bad=[t for t in want if res.get(t)!='pass']
print('stable_pass tests:',len(want),'passing now:',len(want)-len(bad))
for t in bad[:20]: print('  NOT PASSING:',t,res.get(t))
PY
