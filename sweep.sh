#!/bin/bash
# sweep.sh <tier> <seed>... : runs every check (or those in SWEEP_IDS) at the given tier and seeds, one summary line each (used with `vp run --with-repo`)
tier=$1; shift
for s in "$@"; do
  for id in ${SWEEP_IDS:-C01 C02 C03 C04 C05 C06 C07 C08 C09 C10 C11 C12 C13 C14 C15 C16 C17 C18 C19 C20}; do
    t0=$(date +%s)
    VERIF_SEED=$s ./run $id $tier > sweep.$id.$tier.$s.log 2>&1; rc=$?
    echo "seed=$s $id $tier exit=$rc $(( $(date +%s)-t0 ))s $(grep -c '^VIOLATION' sweep.$id.$tier.$s.log) violations"
    grep '^VIOLATION\|INCONCLUSIVE' sweep.$id.$tier.$s.log | cut -c1-400
  done
done
